package main

// Loading of contract files: comment-only Go files (`//@` lines) in /repo guarded
// by the build tag `verif`, and extern spec files (*.spec, same syntax without
// the `//@` prefix) under /verif/contracts/extern.

import (
	"bufio"
	"fmt"
	"os"
	"path/filepath"
	"regexp"
	"sort"
	"strconv"
	"strings"
)

type SpecDB struct {
	Contracts   map[string]*Contract
	SpecFuncs   map[string]*SpecFunc
	Lemmas      []*Lemma
	Axioms      []*Lemma // assumed ground facts (each is checked against the real code by the conformance tests)
	GhostVars   map[string]*GhostVar
	GhostFields map[string]*GhostField // key: Owner + "." + Name
	Errors      []string
	Files       []string
}

func NewSpecDB() *SpecDB {
	return &SpecDB{
		Contracts:   map[string]*Contract{},
		SpecFuncs:   map[string]*SpecFunc{},
		GhostVars:   map[string]*GhostVar{},
		GhostFields: map[string]*GhostField{},
	}
}

var directiveRe = regexp.MustCompile(`^(props|ghost|spec|lemma|func|site-requires|site|extern|floatconv|arith|trusted|pure|requires|ensures|canary|modifies|loop|nullable|nopanic|let|effects|axiom)\b`)

type rawLine struct {
	text string
	line int
}

// readSpecLines returns logical directive lines (continuations joined).
func readSpecLines(path string, prefix string) ([]rawLine, string, error) {
	f, err := os.Open(path)
	if err != nil {
		return nil, "", err
	}
	defer f.Close()
	sc := bufio.NewScanner(f)
	sc.Buffer(make([]byte, 1<<20), 1<<20)
	var out []rawLine
	pkgName := ""
	n := 0
	for sc.Scan() {
		n++
		ln := sc.Text()
		tl := strings.TrimSpace(ln)
		if strings.HasPrefix(tl, "package ") {
			pkgName = strings.TrimSpace(strings.TrimPrefix(tl, "package "))
			continue
		}
		if prefix != "" {
			if !strings.HasPrefix(tl, prefix) {
				continue
			}
			tl = strings.TrimSpace(strings.TrimPrefix(tl, prefix))
		}
		if tl == "" || strings.HasPrefix(tl, "#") {
			continue
		}
		// strip trailing comments  " // ..."
		if i := strings.Index(tl, " // "); i >= 0 {
			tl = strings.TrimSpace(tl[:i])
		}
		if strings.HasPrefix(tl, "// ") || tl == "//" {
			continue
		}
		if directiveRe.MatchString(tl) || len(out) == 0 {
			out = append(out, rawLine{tl, n})
		} else {
			out[len(out)-1].text += " " + tl
		}
	}
	return out, pkgName, sc.Err()
}

func parseBinders(s string) ([]Binder, error) {
	s = strings.TrimSpace(s)
	if s == "" {
		return nil, nil
	}
	var bs []Binder
	depth := 0
	start := 0
	parts := []string{}
	for i, c := range s {
		switch c {
		case '[', '(':
			depth++
		case ']', ')':
			depth--
		case ',':
			if depth == 0 {
				parts = append(parts, s[start:i])
				start = i + 1
			}
		}
	}
	parts = append(parts, s[start:])
	for _, p := range parts {
		f := strings.Fields(strings.TrimSpace(p))
		if len(f) < 2 {
			return nil, fmt.Errorf("bad binder %q", p)
		}
		bs = append(bs, Binder{f[0], strings.Join(f[1:], "")})
	}
	return bs, nil
}

// splitLabel: "@name rest" -> name, rest
func splitLabel(s string) (string, string) {
	s = strings.TrimSpace(s)
	if strings.HasPrefix(s, "@") {
		i := strings.IndexAny(s, " \t")
		if i < 0 {
			return s[1:], ""
		}
		return s[1:i], strings.TrimSpace(s[i:])
	}
	return "", s
}

func (db *SpecDB) errf(path string, line int, f string, a ...interface{}) {
	db.Errors = append(db.Errors, fmt.Sprintf("%s:%d: %s", path, line, fmt.Sprintf(f, a...)))
}

// LoadFile parses one contract file. pkgPath is the import path used to qualify
// unqualified function keys and to resolve identifiers ("" for extern files).
func (db *SpecDB) LoadFile(path, pkgPath, prefix string) {
	lines, _, err := readSpecLines(path, prefix)
	if err != nil {
		db.errf(path, 0, "%v", err)
		return
	}
	db.Files = append(db.Files, path)
	var cur *Contract
	var fileProps []string
	for _, rl := range lines {
		t := rl.text
		kw := strings.Fields(t)[0]
		rest := strings.TrimSpace(strings.TrimPrefix(t, kw))
		mkClause := func(kind string) *Clause {
			label, txt := splitLabel(rest)
			e, err := ParseExpr(txt)
			if err != nil {
				db.errf(path, rl.line, "%v", err)
				return nil
			}
			return &Clause{Kind: kind, Label: label, Text: txt, E: e, Line: rl.line}
		}
		switch kw {
		case "props":
			if cur == nil {
				fileProps = strings.Fields(rest)
			} else {
				cur.Props = strings.Fields(rest)
			}
		case "ghost":
			f := strings.Fields(rest)
			if len(f) >= 3 && f[0] == "var" {
				db.GhostVars[f[1]] = &GhostVar{Name: f[1], Type: strings.Join(f[2:], ""), Pkg: pkgPath}
			} else if len(f) >= 4 && f[0] == "field" {
				db.GhostFields[f[1]+"."+f[2]] = &GhostField{Owner: f[1], Name: f[2], Type: strings.Join(f[3:], "")}
			} else {
				db.errf(path, rl.line, "bad ghost declaration")
			}
			cur = nil
		case "spec":
			// spec func name(params) ret = body     |  spec func name(params) ret   (uninterpreted)
			// "spec opaque func ..." : the definition is given to the solver as a function symbol with a triggered defining axiom
			// instead of a macro, so that quantified facts about it can be instantiated by matching on its applications
			opaque := false
			if strings.HasPrefix(rest, "opaque ") {
				opaque = true
				rest = strings.TrimSpace(strings.TrimPrefix(rest, "opaque "))
			}
			m := regexp.MustCompile(`^func\s+(\w+)\s*\(([^)]*)\)\s*([\w\[\]\.\*/\-]+)\s*(=\s*(.*))?$`).FindStringSubmatch(rest)
			if m == nil {
				db.errf(path, rl.line, "bad spec func: %s", rest)
				continue
			}
			bs, err := parseBinders(m[2])
			if err != nil {
				db.errf(path, rl.line, "%v", err)
				continue
			}
			sf := &SpecFunc{Name: m[1], Params: bs, Ret: m[3], Text: m[5], Pkg: pkgPath, Opaque: opaque}
			if m[5] != "" {
				e, err := ParseExpr(m[5])
				if err != nil {
					db.errf(path, rl.line, "%v", err)
					continue
				}
				sf.Body = e
			}
			db.SpecFuncs[sf.Name] = sf
			cur = nil
		case "lemma", "axiom":
			m := regexp.MustCompile(`^(\w+)\s*\(([^)]*)\)\s*(\[[^\]]*\])?\s*:\s*(.*)$`).FindStringSubmatch(rest)
			if m == nil {
				db.errf(path, rl.line, "bad lemma: %s", rest)
				continue
			}
			bs, err := parseBinders(m[2])
			if err != nil {
				db.errf(path, rl.line, "%v", err)
				continue
			}
			e, err := ParseExpr(m[4])
			if err != nil {
				db.errf(path, rl.line, "%v", err)
				continue
			}
			lm := &Lemma{Name: m[1], Params: bs, Body: e, Text: m[4], Pkg: pkgPath}
			if m[3] != "" {
				lm.Props = strings.Fields(strings.Trim(m[3], "[]"))
			} else {
				lm.Props = fileProps
			}
			if kw == "axiom" {
				lm.Name = "axiom:" + lm.Name
				db.Axioms = append(db.Axioms, lm)
				cur = nil
				continue
			}
			db.Lemmas = append(db.Lemmas, lm)
			cur = nil
		case "site-requires":
			// site-requires <caller> | <callee> | <n or *> : extra call-site preconditions in the caller's scope
			parts := strings.Split(rest, "|")
			if len(parts) != 3 {
				db.errf(path, rl.line, "expected: site-requires <caller> | <callee> | <n>")
				continue
			}
			caller := qualifyKey(strings.TrimSpace(parts[0]), pkgPath)
			callee := qualifyKey(strings.TrimSpace(parts[1]), pkgPath)
			key := fmt.Sprintf("sitereq:%s:%s#%s", caller, callee, strings.TrimSpace(parts[2]))
			cur = &Contract{Key: key, Pkg: pkgPath, File: path, Arith: "wrap", Loops: map[int]*LoopContract{}, Nullable: map[string]bool{}, NoPanic: true, Props: fileProps, Trusted: true, Site: true}
			db.Contracts[key] = cur
		case "site":
			// site <caller> | <callee> | <n>   : contract of the n-th call (source order) of callee inside caller,
			// evaluated in the caller's scope (caller parameters; result/err of the call)
			parts := strings.Split(rest, "|")
			if len(parts) != 3 {
				db.errf(path, rl.line, "expected: site <caller> | <callee> | <n>")
				continue
			}
			caller := qualifyKey(strings.TrimSpace(parts[0]), pkgPath)
			key := fmt.Sprintf("site:%s:%s#%s", caller, strings.TrimSpace(parts[1]), strings.TrimSpace(parts[2]))
			cur = &Contract{Key: key, Pkg: pkgPath, File: path, Arith: "wrap", Loops: map[int]*LoopContract{}, Nullable: map[string]bool{}, NoPanic: true, Props: fileProps, Trusted: true, Site: true}
			db.Contracts[key] = cur
		case "func", "extern":
			key := rest
			if kw == "extern" {
				key = strings.TrimSpace(strings.TrimPrefix(rest, "func"))
			}
			key = qualifyKey(key, pkgPath)
			cur = &Contract{Key: key, Pkg: pkgPath, File: path, Arith: "wrap", Loops: map[int]*LoopContract{}, Nullable: map[string]bool{}, NoPanic: true, Props: fileProps, Extern: kw == "extern"}
			if kw == "extern" {
				cur.Trusted = true
			}
			if _, dup := db.Contracts[key]; dup {
				db.errf(path, rl.line, "duplicate contract for %s", key)
			}
			db.Contracts[key] = cur
		default:
			if cur == nil {
				db.errf(path, rl.line, "clause %q outside a func block", kw)
				continue
			}
			switch kw {
			case "floatconv":
				cur.FloatAbs = rest == "abstract"
			case "arith":
				cur.Arith = rest
			case "trusted":
				cur.Trusted = true
			case "pure":
				cur.Pure = true
			case "nopanic":
				cur.NoPanic = rest != "off"
			case "nullable":
				for _, n := range strings.Fields(strings.ReplaceAll(rest, ",", " ")) {
					cur.Nullable[n] = true
				}
			case "requires":
				if c := mkClause("requires"); c != nil {
					cur.Requires = append(cur.Requires, c)
				}
			case "ensures":
				if c := mkClause("ensures"); c != nil {
					cur.Ensures = append(cur.Ensures, c)
				}
			case "canary":
				if c := mkClause("canary"); c != nil {
					cur.Canaries = append(cur.Canaries, c)
				}
			case "let":
				i := strings.Index(rest, "=")
				if i < 0 {
					db.errf(path, rl.line, "bad let")
					continue
				}
				cur.Lets = append(cur.Lets, Binder{strings.TrimSpace(rest[:i]), strings.TrimSpace(rest[i+1:])})
			case "effects":
				cur.Effects = append(cur.Effects, rest)
			case "modifies":
				if strings.TrimSpace(rest) == "*" {
					cur.ModAll = true
				} else if strings.TrimSpace(rest) == "heap" {
					cur.ModHeap = true
				} else if strings.TrimSpace(rest) != "nothing" {
					for _, l := range splitTop(rest, ',') {
						cur.Modifies = append(cur.Modifies, strings.TrimSpace(l))
					}
				}
			case "loop":
				f := strings.Fields(rest)
				if len(f) >= 3 && f[1] == "preserves" && f[2] == "old" {
					n, err := strconv.Atoi(f[0])
					if err != nil {
						db.errf(path, rl.line, "bad loop ordinal")
						continue
					}
					lc := cur.Loops[n]
					if lc == nil {
						lc = &LoopContract{Ordinal: n}
						cur.Loops[n] = lc
					}
					lc.PreservesOld = true
					continue
				}
				if len(f) >= 2 && f[1] == "no-break" {
					// loop N no-break : the loop is left only through its header condition or by returning (no break / goto out of
					// the body): together with a range invariant this says that every element is visited
					n, err := strconv.Atoi(f[0])
					if err != nil {
						db.errf(path, rl.line, "bad loop ordinal")
						continue
					}
					lc := cur.Loops[n]
					if lc == nil {
						lc = &LoopContract{Ordinal: n}
						cur.Loops[n] = lc
					}
					lc.NoBreak = true
					continue
				}
				if len(f) >= 3 && (f[1] == "body-assert" || f[1] == "body-check") {
					// body-assert: proved at the entry of the loop body, then assumed (a hint);  body-check: proved there and
					// NOT assumed afterwards (a claim about the data the body meets; if it fails nothing later leans on it)
					n, err := strconv.Atoi(f[0])
					if err != nil {
						db.errf(path, rl.line, "bad loop ordinal")
						continue
					}
					rest = strings.TrimSpace(strings.TrimPrefix(strings.TrimSpace(strings.TrimPrefix(rest, f[0])), f[1]))
					c := mkClause(f[1])
					if c == nil {
						continue
					}
					lc := cur.Loops[n]
					if lc == nil {
						lc = &LoopContract{Ordinal: n}
						cur.Loops[n] = lc
					}
					lc.BodyAsserts = append(lc.BodyAsserts, c)
					continue
				}
				if len(f) < 3 || f[1] != "invariant" {
					db.errf(path, rl.line, "expected: loop N invariant expr")
					continue
				}
				n, err := strconv.Atoi(f[0])
				if err != nil {
					db.errf(path, rl.line, "bad loop ordinal")
					continue
				}
				rest = strings.TrimSpace(strings.TrimPrefix(strings.TrimSpace(strings.TrimPrefix(rest, f[0])), "invariant"))
				c := mkClause("invariant")
				if c == nil {
					continue
				}
				lc := cur.Loops[n]
				if lc == nil {
					lc = &LoopContract{Ordinal: n}
					cur.Loops[n] = lc
				}
				lc.Invariants = append(lc.Invariants, c)
			}
		}
	}
}

func splitTop(s string, sep rune) []string {
	var parts []string
	depth, start := 0, 0
	for i, c := range s {
		switch c {
		case '[', '(':
			depth++
		case ']', ')':
			depth--
		default:
			if c == sep && depth == 0 {
				parts = append(parts, s[start:i])
				start = i + 1
			}
		}
	}
	return append(parts, s[start:])
}

// qualifyKey turns "Convert" / "(*T).M" / "(T).M" into the ssa.Function.String() form.
func qualifyKey(key, pkg string) string {
	key = strings.TrimSpace(key)
	if pkg == "" {
		return key
	}
	if strings.HasPrefix(key, "(") {
		i := strings.Index(key, ")")
		recv := key[1:i]
		rest := key[i+1:]
		star := ""
		if strings.HasPrefix(recv, "*") {
			star = "*"
			recv = recv[1:]
		}
		if !strings.Contains(recv, ".") {
			recv = pkg + "." + recv
		}
		return "(" + star + recv + ")" + rest
	}
	if strings.Contains(key, "/") {
		return key
	}
	if i := strings.Index(key, "."); i > 0 && !strings.HasPrefix(key, "init") && !strings.Contains(key[:i], "$") {
		return key // a standard-library function such as sort.Slice (package-local functions have no dot)
	}
	return pkg + "." + key
}

// LoadRepoContracts loads every zz_contracts_verif.go below root.
func (db *SpecDB) LoadRepoContracts(root, modPath string) {
	var files []string
	filepath.Walk(root, func(p string, info os.FileInfo, err error) error {
		if err != nil {
			return nil
		}
		if info.IsDir() && (info.Name() == ".git" || info.Name() == "vendor") {
			return filepath.SkipDir
		}
		if !info.IsDir() && info.Name() == "zz_contracts_verif.go" {
			files = append(files, p)
		}
		return nil
	})
	sort.Strings(files)
	for _, f := range files {
		rel, _ := filepath.Rel(root, filepath.Dir(f))
		pkg := modPath
		if rel != "." {
			pkg = modPath + "/" + filepath.ToSlash(rel)
		}
		db.LoadFile(f, pkg, "//@")
	}
}

func (db *SpecDB) LoadExternDir(dir string) {
	files, _ := filepath.Glob(filepath.Join(dir, "*.spec"))
	sort.Strings(files)
	for _, f := range files {
		db.LoadFile(f, "", "")
	}
}
