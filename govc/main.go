package main

import (
	"flag"
	"fmt"
	"os"
	"sort"
	"strings"
	"time"
)

func main() {
	if len(os.Args) < 2 {
		fmt.Fprintln(os.Stderr, "usage: govc vc|check|ssa ...")
		os.Exit(2)
	}
	switch os.Args[1] {
	case "vc":
		cmdVC(os.Args[2:])
	case "check":
		cmdCheck(os.Args[2:])
	case "ssa":
		cmdSSA(os.Args[2:])
	default:
		fmt.Fprintln(os.Stderr, "unknown command")
		os.Exit(2)
	}
}

func envOr(k, d string) string {
	if v := os.Getenv(k); v != "" {
		return v
	}
	return d
}

func cmdSSA(args []string) {
	eng, err := LoadEngine(envOr("VERIF_REPO", "/repo"), envOr("VERIF_DIR", "/verif"))
	if err != nil {
		fmt.Fprintln(os.Stderr, err)
		os.Exit(2)
	}
	var keys []string
	for k := range eng.fnByKey {
		keys = append(keys, k)
	}
	sort.Strings(keys)
	for _, k := range keys {
		for _, a := range args {
			if strings.Contains(k, a) {
				eng.fnByKey[k].WriteTo(os.Stdout)
			}
		}
	}
}

// cmdVC: generate and solve the obligations of the functions whose key contains one of the arguments.
func cmdVC(args []string) {
	fs := flag.NewFlagSet("vc", flag.ExitOnError)
	dump := fs.String("dump", "", "directory to dump queries")
	timeout := fs.Int("t", 10, "timeout seconds")
	sv := fs.String("solvers", "z3-new,z3-em,cvc5", "solvers")
	only := fs.String("only", "", "only obligations containing this text")
	verbose := fs.Bool("v", false, "print failing output")
	fs.Parse(args)
	eng, err := LoadEngine(envOr("VERIF_REPO", "/repo"), envOr("VERIF_DIR", "/verif"))
	if err != nil {
		fmt.Fprintln(os.Stderr, err)
		os.Exit(2)
	}
	for _, e := range eng.db.Errors {
		fmt.Println("SPEC ERROR:", e)
	}
	var keys []string
	for k := range eng.db.Contracts {
		keys = append(keys, k)
	}
	sort.Strings(keys)
	work, _ := os.MkdirTemp("", "govc")
	defer os.RemoveAll(work)
	if *dump != "" {
		os.MkdirAll(*dump, 0755)
	}
	for _, k := range keys {
		ct := eng.db.Contracts[k]
		if ct.Trusted {
			continue
		}
		match := len(fs.Args()) == 0
		for _, a := range fs.Args() {
			if strings.Contains(k, a) {
				match = true
			}
		}
		if !match {
			continue
		}
		fn := eng.FindFunction(k)
		if fn == nil {
			fmt.Printf("== %s: NO SUCH FUNCTION\n", k)
			continue
		}
		t0 := time.Now()
		g := NewGen(eng, fn, ct)
		g.Run()
		fmt.Printf("== %s: %d obligations, %d lines (gen %v)\n", k, len(g.obls), len(g.sc.lines), time.Since(t0))
		if g.refuse != "" {
			fmt.Printf("   REFUSED: %s\n", g.refuse)
			continue
		}
		for u := range g.uncontracted {
			fmt.Printf("   uncontracted call: %s\n", u)
		}
		obls := append(g.autoCanaries(), g.obls...)
		if os.Getenv("GOVC_SLICEINFO") != "" {
			for _, o := range obls {
				if *only != "" && !strings.Contains(o.Name, *only) {
					continue
				}
				full := len(o.Query(false))
				for _, d := range []int{1, 2, 4} {
					sq := o.QuerySliced(false, d)
					fmt.Printf("   sliceinfo %s depth %d: %d / %d bytes\n", o.Name, d, len(sq), full)
					if *dump != "" {
						os.WriteFile(fmt.Sprintf("%s/slice%d_%s.smt2", *dump, d, sanitize(o.Name)), []byte(sq+"(check-sat)\n"), 0644)
					}
				}
			}
		}
		if *only != "" {
			var f []*Obligation
			for _, o := range obls {
				if strings.Contains(o.Name, *only) {
					f = append(f, o)
				}
			}
			obls = f
		}
		res := SolveAll(obls, SolveOpts{Solvers: strings.Split(*sv, ","), TimeoutS: *timeout, Workdir: work, Parallel: 8, DumpDir: *dump})
		for _, r := range res {
			mark := "ok  "
			if r.Kind == "path" {
				if r.Status == "unsat" {
					fmt.Printf("   DEAD-PATH                                %s\n", r.Name)
				}
				continue
			}
			if r.Canary {
				if r.Status == "unsat" {
					mark = "CANARY-PASSED(BAD)"
				} else {
					mark = "ok(canary " + r.Status + ")"
				}
			} else if r.Status != "unsat" {
				mark = "FAIL(" + r.Status + ")"
			}
			fmt.Printf("   %-22s %6dms %-7s %s\n", mark, r.Ms, r.Solver, r.Name)
			if i := strings.Index(r.Text, "[return point"); i >= 0 && r.Status != "unsat" {
				fmt.Printf("        %s\n", r.Text[i:])
			}
			if *verbose && r.Status != "unsat" && !r.Canary {
				out := r.Output
				if len(out) > 3000 {
					out = out[:3000]
				}
				fmt.Println(out)
			}
		}
	}
}
