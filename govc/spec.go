package main

// Spec expression language: lexer, Pratt parser, AST.
//
//   e ::= lit | ident | e.f | e[i] | f(args) | old(e) | !e | -e
//       | e op e          op in  * / % + - == != < <= > >= && || ==> <==>
//       | c ? a : b
//       | forall x T, y T :: e | exists x T :: e
//
// Types in binders and spec-func signatures: int, bool, or a Go type name
// (resolved against the package of the contract), map[K]V, set[K].

import (
	"fmt"
	"strconv"
	"strings"
	"unicode"
)

type Expr interface{ String() string }

type (
	ELit   struct{ Val string }                // integer literal / true / false / nil
	EStr   struct{ Val string }                // string literal
	EIdent struct{ Name string }               // x, pkg (qualified handled by ESel)
	ESel   struct {
		X Expr
		F string
	}
	EIndex struct{ X, I Expr }
	ECall  struct {
		Fn   string
		Args []Expr
	}
	EOld   struct{ X Expr }
	EUn    struct {
		Op string
		X  Expr
	}
	EBin struct {
		Op   string
		L, R Expr
	}
	ECond  struct{ C, A, B Expr }
	EQuant struct {
		Forall bool
		Vars   []Binder
		Body   Expr
	}
)

type Binder struct {
	Name string
	Type string // textual type
}

func (e *ELit) String() string   { return e.Val }
func (e *EStr) String() string   { return fmt.Sprintf("%q", e.Val) }
func (e *EIdent) String() string { return e.Name }
func (e *ESel) String() string   { return e.X.String() + "." + e.F }
func (e *EIndex) String() string { return e.X.String() + "[" + e.I.String() + "]" }
func (e *ECall) String() string {
	var a []string
	for _, x := range e.Args {
		a = append(a, x.String())
	}
	return e.Fn + "(" + strings.Join(a, ", ") + ")"
}
func (e *EOld) String() string  { return "old(" + e.X.String() + ")" }
func (e *EUn) String() string   { return e.Op + e.X.String() }
func (e *EBin) String() string  { return "(" + e.L.String() + " " + e.Op + " " + e.R.String() + ")" }
func (e *ECond) String() string { return "(" + e.C.String() + " ? " + e.A.String() + " : " + e.B.String() + ")" }
func (e *EQuant) String() string {
	q := "exists"
	if e.Forall {
		q = "forall"
	}
	var v []string
	for _, b := range e.Vars {
		v = append(v, b.Name+" "+b.Type)
	}
	return "(" + q + " " + strings.Join(v, ", ") + " :: " + e.Body.String() + ")"
}

type tok struct {
	kind string // ident int str op eof
	val  string
	pos  int
}

func lex(s string) ([]tok, error) {
	var toks []tok
	i := 0
	for i < len(s) {
		c := s[i]
		switch {
		case c == ' ' || c == '\t' || c == '\n':
			i++
		case unicode.IsLetter(rune(c)) || c == '_':
			j := i
			for j < len(s) && (unicode.IsLetter(rune(s[j])) || unicode.IsDigit(rune(s[j])) || s[j] == '_') {
				j++
			}
			toks = append(toks, tok{"ident", s[i:j], i})
			i = j
		case unicode.IsDigit(rune(c)):
			j := i
			for j < len(s) && (unicode.IsDigit(rune(s[j])) || s[j] == '_' || s[j] == 'x' || (s[j] >= 'a' && s[j] <= 'f') || (s[j] >= 'A' && s[j] <= 'F')) {
				j++
			}
			toks = append(toks, tok{"int", strings.ReplaceAll(s[i:j], "_", ""), i})
			i = j
		case c == '"':
			j := i + 1
			for j < len(s) && s[j] != '"' {
				if s[j] == '\\' {
					j++
				}
				j++
			}
			if j >= len(s) {
				return nil, fmt.Errorf("unterminated string at %d", i)
			}
			lit := s[i+1 : j]
			if u, err := strconv.Unquote("\"" + lit + "\""); err == nil {
				lit = u
			}
			toks = append(toks, tok{"str", lit, i})
			i = j + 1
		default:
			ops := []string{"<==>", "==>", "::", "==", "!=", "<=", ">=", "&&", "||", "<", ">", "+", "-", "*", "/", "%", "!", "(", ")", "[", "]", ".", ",", "?", ":", "{", "}"}
			found := false
			for _, o := range ops {
				if strings.HasPrefix(s[i:], o) {
					toks = append(toks, tok{"op", o, i})
					i += len(o)
					found = true
					break
				}
			}
			if !found {
				return nil, fmt.Errorf("unexpected character %q at %d in %q", c, i, s)
			}
		}
	}
	toks = append(toks, tok{"eof", "", len(s)})
	return toks, nil
}

type parser struct {
	toks []tok
	p    int
	src  string
}

func ParseExpr(s string) (e Expr, err error) {
	toks, err := lex(s)
	if err != nil {
		return nil, err
	}
	ps := &parser{toks: toks, src: s}
	defer func() {
		if r := recover(); r != nil {
			err = fmt.Errorf("parse error: %v in %q", r, s)
		}
	}()
	e = ps.expr(0)
	if ps.peek().kind != "eof" {
		panic(fmt.Sprintf("trailing input at %d (%q)", ps.peek().pos, ps.peek().val))
	}
	return e, nil
}

func (p *parser) peek() tok { return p.toks[p.p] }
func (p *parser) next() tok { t := p.toks[p.p]; p.p++; return t }
func (p *parser) isOp(v string) bool {
	t := p.peek()
	return t.kind == "op" && t.val == v
}
func (p *parser) expect(v string) {
	t := p.next()
	if t.kind != "op" || t.val != v {
		panic(fmt.Sprintf("expected %q at %d, got %q", v, t.pos, t.val))
	}
}

var binPrec = map[string]int{
	"<==>": 1, "==>": 2, "||": 4, "&&": 5,
	"==": 6, "!=": 6, "<": 6, "<=": 6, ">": 6, ">=": 6,
	"+": 7, "-": 7, "*": 8, "/": 8, "%": 8,
}

func (p *parser) expr(minPrec int) Expr {
	l := p.unary()
	for {
		t := p.peek()
		if t.kind != "op" {
			return l
		}
		if t.val == "?" && minPrec <= 3 {
			p.next()
			a := p.expr(0)
			p.expect(":")
			b := p.expr(3)
			l = &ECond{l, a, b}
			continue
		}
		prec, ok := binPrec[t.val]
		if !ok || prec < minPrec {
			return l
		}
		p.next()
		var r Expr
		if t.val == "==>" || t.val == "<==>" { // right assoc
			r = p.expr(prec)
		} else {
			r = p.expr(prec + 1)
		}
		l = &EBin{t.val, l, r}
	}
}

func (p *parser) unary() Expr {
	t := p.peek()
	if t.kind == "op" && (t.val == "!" || t.val == "-" || t.val == "*") {
		p.next()
		return &EUn{t.val, p.unary()}
	}
	return p.postfix(p.primary())
}

func (p *parser) typeText() string {
	// parse a type: ident(.ident)* | map[T]T | set[T] | []T | *T
	t := p.next()
	if t.kind == "op" && t.val == "*" {
		return "*" + p.typeText()
	}
	if t.kind == "op" && t.val == "[" {
		p.expect("]")
		return "[]" + p.typeText()
	}
	if t.kind != "ident" {
		panic(fmt.Sprintf("type expected at %d", t.pos))
	}
	if t.val == "gomap" {
		p.expect("[")
		k := p.typeText()
		p.expect("]")
		v := p.typeText()
		return "gomap[" + k + "]" + v
	}
	if t.val == "map" || t.val == "set" {
		p.expect("[")
		k := p.typeText()
		p.expect("]")
		if t.val == "set" {
			return "set[" + k + "]"
		}
		v := p.typeText()
		return "map[" + k + "]" + v
	}
	s := t.val
	for p.isOp(".") {
		p.next()
		s += "." + p.next().val
	}
	return s
}

func (p *parser) primary() Expr {
	t := p.next()
	switch t.kind {
	case "int":
		return &ELit{t.val}
	case "str":
		return &EStr{t.val}
	case "ident":
		switch t.val {
		case "true", "false", "nil":
			return &ELit{t.val}
		case "forall", "exists":
			var bs []Binder
			for {
				n := p.next()
				if n.kind != "ident" {
					panic("binder name expected")
				}
				ty := p.typeText()
				bs = append(bs, Binder{n.val, ty})
				if p.isOp(",") {
					p.next()
					continue
				}
				break
			}
			p.expect("::")
			body := p.expr(0)
			return &EQuant{t.val == "forall", bs, body}
		case "old":
			if p.isOp("(") {
				p.next()
				e := p.expr(0)
				p.expect(")")
				return &EOld{e}
			}
		}
		if p.isOp("(") {
			p.next()
			var args []Expr
			for !p.isOp(")") {
				args = append(args, p.expr(0))
				if p.isOp(",") {
					p.next()
				}
			}
			p.expect(")")
			return &ECall{t.val, args}
		}
		return &EIdent{t.val}
	case "op":
		if t.val == "(" {
			e := p.expr(0)
			p.expect(")")
			return e
		}
	}
	panic(fmt.Sprintf("unexpected tok %q at %d", t.val, t.pos))
}

func (p *parser) postfix(e Expr) Expr {
	for {
		switch {
		case p.isOp("."):
			p.next()
			f := p.next()
			if f.kind != "ident" {
				panic("field name expected")
			}
			// qualified call  pkg.Fn(args)
			if p.isOp("(") {
				if id, ok := e.(*EIdent); ok {
					p.next()
					var args []Expr
					for !p.isOp(")") {
						args = append(args, p.expr(0))
						if p.isOp(",") {
							p.next()
						}
					}
					p.expect(")")
					e = &ECall{id.Name + "." + f.val, args}
					continue
				}
			}
			e = &ESel{e, f.val}
		case p.isOp("["):
			p.next()
			i := p.expr(0)
			p.expect("]")
			e = &EIndex{e, i}
		default:
			return e
		}
	}
}

// ---------------------------------------------------------------------------
// Contracts

type Clause struct {
	Kind  string // requires ensures invariant assert canary-ensures ...
	Label string // optional name
	Text  string
	E     Expr
	Line  int
}

type LoopContract struct {
	Ordinal    int
	Invariants []*Clause
	BodyAsserts []*Clause // proved then assumed at the entry of the loop body
	NoBreak     bool      // the loop is left only at its header or by returning
	PreservesOld bool     // frame invariant: objects older than the function entry are not written
}

type SpecFunc struct {
	Name   string
	Params []Binder
	Ret    string
	Body   Expr // nil => uninterpreted
	Text   string
	Pkg    string
	Opaque bool // emitted as declare-fun + triggered defining axiom
}

type Lemma struct {
	Name   string
	Params []Binder
	Body   Expr
	Text   string
	Pkg    string
	Props  []string
}

type GhostVar struct {
	Name string
	Type string
	Pkg  string
}

type GhostField struct {
	Owner string // type name e.g. math/big.Int
	Name  string
	Type  string
}

type Contract struct {
	Key       string // function key, e.g. "github.com/pegnet/pegnetd/node/conversions.Convert" or "(*pkg.T).M"
	Pkg       string // package path for name resolution
	File      string
	Arith     string // "checked" | "wrap"  (default wrap)
	Trusted   bool   // body not verified (leaf / extern)
	Pure      bool   // no heap effects at all
	Requires  []*Clause
	Ensures   []*Clause
	Canaries  []*Clause // must-fail postconditions
	Modifies  []string  // textual locations
	ModAll    bool
	FloatAbs  bool // integer<->float conversions as uninterpreted functions (glue proofs that only need congruence)
	ModHeap   bool // every heap cell may change (ghost state only as listed)
	Loops     map[int]*LoopContract
	Props     []string // property ids this contract serves (for selection)
	Nullable  map[string]bool
	NoPanic   bool // generate safety obligations (default true)
	Lets      []Binder // name, text (Type field holds expr text)
	Extern    bool
	Effects   []string
	Site      bool
}
