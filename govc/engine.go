package main

// Engine: program loading, global analysis, type resolution, contract lookup.

import (
	"encoding/json"
	"fmt"
	"go/token"
	"go/types"
	"math/big"
	"os"
	"path/filepath"
	"sort"
	"strings"

	"golang.org/x/tools/go/packages"
	"golang.org/x/tools/go/ssa"
	"golang.org/x/tools/go/ssa/ssautil"
)

const repoMod = "github.com/pegnet/pegnetd"

type Engine struct {
	repo   string
	prog   *ssa.Program
	fset   *token.FileSet
	pkgs   []*packages.Package
	spkgs  []*ssa.Package
	db     *SpecDB
	allFns map[*ssa.Function]bool
	fnByKey map[string]*ssa.Function

	globalIDs   map[*ssa.Global]int
	constGlobal map[*ssa.Global]bool
	globalInit  map[*ssa.Global]ssa.Value // value stored by the initialiser (if unique)
	mutators    map[*ssa.Global][]string  // who writes a global (for reports)
	purePats    []string
	closureBindings map[*ssa.MakeClosure][]ssa.Value
	usedContracts   map[string]bool
	typesPkgs   map[string]*types.Package
	elemMutable map[*ssa.Global]bool
	// locals named by contracts: function -> name -> Go type, recorded on the pinned tree (baseline/names.json) so that a local
	// that was merely renamed can be found again by its type
	nameTypes map[string]map[string]string
	seenNames map[string]map[string]string
	// header text of the loops of each analysed function in ordinal order, recorded on the pinned tree (baseline/loops.json)
	loopKeys  map[string][]string
	seenLoops map[string][]string
}

func LoadEngine(repo string, verifDir string) (*Engine, error) {
	cfg := &packages.Config{Mode: packages.LoadAllSyntax, Dir: repo, BuildFlags: []string{"-tags=verif"}}
	pkgs, err := packages.Load(cfg, "./...")
	if err != nil {
		return nil, err
	}
	var errs []string
	packages.Visit(pkgs, nil, func(p *packages.Package) {
		if strings.HasPrefix(p.PkgPath, repoMod) {
			for _, e := range p.Errors {
				errs = append(errs, e.Error())
			}
		}
	})
	if len(errs) > 0 {
		return nil, fmt.Errorf("package errors: %s", strings.Join(errs, "; "))
	}
	prog, spkgs := ssautil.AllPackages(pkgs, ssa.GlobalDebug)
	prog.Build()
	eng := &Engine{repo: repo, prog: prog, fset: prog.Fset, pkgs: pkgs, spkgs: spkgs, db: NewSpecDB(),
		globalIDs: map[*ssa.Global]int{}, constGlobal: map[*ssa.Global]bool{}, globalInit: map[*ssa.Global]ssa.Value{},
		mutators: map[*ssa.Global][]string{}, closureBindings: map[*ssa.MakeClosure][]ssa.Value{}, usedContracts: map[string]bool{},
		typesPkgs: map[string]*types.Package{}, fnByKey: map[string]*ssa.Function{}}
	eng.allFns = ssautil.AllFunctions(prog)
	for f := range eng.allFns {
		eng.fnByKey[f.String()] = f
	}
	for _, p := range prog.AllPackages() {
		eng.typesPkgs[p.Pkg.Path()] = p.Pkg
	}
	eng.db.LoadRepoContracts(repo, repoMod)
	eng.db.LoadExternDir(filepath.Join(verifDir, "contracts", "extern"))
	eng.loadPureList(filepath.Join(verifDir, "contracts", "extern", "pure.list"))
	eng.analyseGlobals()
	eng.seenNames = map[string]map[string]string{}
	eng.nameTypes = map[string]map[string]string{}
	if b, err := os.ReadFile(filepath.Join(verifDir, "baseline", "names.json")); err == nil {
		json.Unmarshal(b, &eng.nameTypes)
	}
	eng.seenLoops = map[string][]string{}
	eng.loopKeys = map[string][]string{}
	if b, err := os.ReadFile(filepath.Join(verifDir, "baseline", "loops.json")); err == nil {
		json.Unmarshal(b, &eng.loopKeys)
	}
	return eng, nil
}

func (eng *Engine) loadPureList(path string) {
	b, err := os.ReadFile(path)
	if err != nil {
		return
	}
	for _, l := range strings.Split(string(b), "\n") {
		l = strings.TrimSpace(l)
		if l == "" || strings.HasPrefix(l, "#") {
			continue
		}
		eng.purePats = append(eng.purePats, l)
	}
}

func (eng *Engine) isPureExtern(key string) bool {
	for _, p := range eng.purePats {
		if strings.HasSuffix(p, "*") {
			if strings.HasPrefix(key, strings.TrimSuffix(p, "*")) {
				return true
			}
		} else if key == p {
			return true
		}
	}
	return false
}

func (eng *Engine) typesPkg(path string) *types.Package { return eng.typesPkgs[path] }

func (eng *Engine) pkgByName(name string) *types.Package {
	// prefer repo packages, then any
	var cands []*types.Package
	for _, p := range eng.typesPkgs {
		if p.Name() == name {
			cands = append(cands, p)
		}
	}
	sort.Slice(cands, func(i, j int) bool {
		ri, rj := strings.HasPrefix(cands[i].Path(), repoMod), strings.HasPrefix(cands[j].Path(), repoMod)
		if ri != rj {
			return ri
		}
		return len(cands[i].Path()) < len(cands[j].Path())
	})
	if len(cands) > 0 {
		return cands[0]
	}
	return nil
}

func (eng *Engine) resolveGoType(s string, pkg *types.Package) (types.Type, error) {
	s = strings.TrimSpace(s)
	switch {
	case strings.HasPrefix(s, "*"):
		t, err := eng.resolveGoType(s[1:], pkg)
		if err != nil {
			return nil, err
		}
		return types.NewPointer(t), nil
	case strings.HasPrefix(s, "[]"):
		t, err := eng.resolveGoType(s[2:], pkg)
		if err != nil {
			return nil, err
		}
		return types.NewSlice(t), nil
	case strings.HasPrefix(s, "map["):
		depth := 0
		for i, c := range s {
			if c == '[' {
				depth++
			} else if c == ']' {
				depth--
				if depth == 0 {
					k, err := eng.resolveGoType(s[4:i], pkg)
					if err != nil {
						return nil, err
					}
					v, err := eng.resolveGoType(s[i+1:], pkg)
					if err != nil {
						return nil, err
					}
					return types.NewMap(k, v), nil
				}
			}
		}
	}
	for _, b := range types.Typ {
		if b.Name() == s {
			return b, nil
		}
	}
	if s == "error" {
		return types.Universe.Lookup("error").Type(), nil
	}
	if s == "byte" {
		return types.Typ[types.Uint8], nil
	}
	if s == "any" || s == "interface{}" {
		return types.NewInterfaceType(nil, nil), nil
	}
	if i := strings.LastIndex(s, "."); i >= 0 {
		pn := s[:i]
		var p *types.Package
		if strings.Contains(pn, "/") {
			p = eng.typesPkgs[pn]
		} else {
			if pkg != nil {
				for _, imp := range pkg.Imports() {
					if imp.Name() == pn {
						p = imp
					}
				}
			}
			if p == nil {
				p = eng.pkgByName(pn)
			}
		}
		if p == nil {
			return nil, fmt.Errorf("unknown package in type %q", s)
		}
		obj := p.Scope().Lookup(s[i+1:])
		if obj == nil {
			return nil, fmt.Errorf("unknown type %q", s)
		}
		return obj.Type(), nil
	}
	if pkg != nil {
		if obj := pkg.Scope().Lookup(s); obj != nil {
			return obj.Type(), nil
		}
	}
	return nil, fmt.Errorf("unknown type %q", s)
}

func (eng *Engine) ghostField(base types.Type, name string) *GhostField {
	n, ok := base.(*types.Named)
	if !ok {
		return nil
	}
	owner := n.Obj().Name()
	if n.Obj().Pkg() != nil {
		owner = n.Obj().Pkg().Path() + "." + owner
	}
	return eng.db.GhostFields[owner+"."+name]
}

func (eng *Engine) globalOf(v *types.Var) *ssa.Global {
	if v.Pkg() == nil {
		return nil
	}
	sp := eng.prog.Package(v.Pkg())
	if sp == nil {
		return nil
	}
	if m, ok := sp.Members[v.Name()].(*ssa.Global); ok {
		return m
	}
	return nil
}

func (eng *Engine) globalID(g *ssa.Global) int {
	if id, ok := eng.globalIDs[g]; ok {
		return id
	}
	id := len(eng.globalIDs) + 1
	eng.globalIDs[g] = id
	return id
}

// analyseGlobals: a package-level variable is "const" when every use outside
// package initialisers (and the allow-listed testing hook) is a plain load.
var globalWriteAllow = map[string]bool{
	"github.com/pegnet/pegnetd/config.SetAllActivations": true, // --testing
	"github.com/pegnet/pegnetd/cmd.always":                true, // --testingact (runs before any command)
}

func (eng *Engine) analyseGlobals() {
	written := map[*ssa.Global]bool{}
	for f := range eng.allFns {
		isInit := f.Name() == "init" || strings.HasPrefix(f.Name(), "init#") || f.Synthetic == "package initializer"
		allow := globalWriteAllow[f.String()]
		for _, b := range f.Blocks {
			for _, ins := range b.Instrs {
				var ops []*ssa.Value
				ops = ins.Operands(ops)
				for _, op := range ops {
					gl, ok := (*op).(*ssa.Global)
					if !ok {
						continue
					}
					if u, isLoad := ins.(*ssa.UnOp); isLoad && u.Op == token.MUL {
						continue
					}
					if _, isDbg := ins.(*ssa.DebugRef); isDbg {
						continue
					}
					if isInit && f.Pkg == gl.Pkg {
						if s, isStore := ins.(*ssa.Store); isStore && s.Addr == gl {
							if _, dup := eng.globalInit[gl]; dup {
								eng.globalInit[gl] = nil
							} else {
								eng.globalInit[gl] = s.Val
							}
						}
						continue
					}
					if allow {
						eng.mutators[gl] = append(eng.mutators[gl], f.String()+" (allow-listed)")
						continue
					}
					written[gl] = true
					eng.mutators[gl] = append(eng.mutators[gl], f.String())
				}
			}
		}
	}
	for _, p := range eng.prog.AllPackages() {
		for _, m := range p.Members {
			if gl, ok := m.(*ssa.Global); ok && !written[gl] {
				eng.constGlobal[gl] = true
			}
		}
	}
	// elements of a global slice written through a loaded copy (x := G; x[i].f = v)
	eng.elemMutable = map[*ssa.Global]bool{}
	var rootGlobal func(v ssa.Value) *ssa.Global
	rootGlobal = func(v ssa.Value) *ssa.Global {
		switch x := v.(type) {
		case *ssa.FieldAddr:
			return rootGlobal(x.X)
		case *ssa.IndexAddr:
			return rootGlobal(x.X)
		case *ssa.UnOp:
			if x.Op == token.MUL {
				if gl, ok := x.X.(*ssa.Global); ok {
					return gl
				}
			}
		}
		return nil
	}
	for f := range eng.allFns {
		if f.Name() == "init" || f.Synthetic == "package initializer" {
			continue
		}
		for _, b := range f.Blocks {
			for _, ins := range b.Instrs {
				if st, ok := ins.(*ssa.Store); ok {
					if gl := rootGlobal(st.Addr); gl != nil {
						eng.elemMutable[gl] = true
					}
				}
			}
		}
	}
}

// evalInit evaluates the initialiser value of a scalar const global, if it is a compile-time
// computable expression over constants and other const globals.
func (eng *Engine) evalInit(v ssa.Value, depth int) (*big.Int, bool) {
	if depth > 8 || v == nil {
		return nil, false
	}
	switch x := v.(type) {
	case *ssa.Const:
		if x.Value == nil {
			return nil, false
		}
		if i, ok := new(big.Int).SetString(x.Value.ExactString(), 10); ok {
			return i, true
		}
		return nil, false
	case *ssa.UnOp:
		if x.Op == token.MUL {
			if gl, ok := x.X.(*ssa.Global); ok && eng.constGlobal[gl] {
				return eng.evalInit(eng.globalInit[gl], depth+1)
			}
		}
	case *ssa.BinOp:
		a, ok1 := eng.evalInit(x.X, depth+1)
		b, ok2 := eng.evalInit(x.Y, depth+1)
		if !ok1 || !ok2 {
			return nil, false
		}
		switch x.Op {
		case token.ADD:
			return new(big.Int).Add(a, b), true
		case token.SUB:
			return new(big.Int).Sub(a, b), true
		case token.MUL:
			return new(big.Int).Mul(a, b), true
		case token.QUO:
			if b.Sign() != 0 {
				return new(big.Int).Quo(a, b), true
			}
		}
	case *ssa.Convert:
		return eng.evalInit(x.X, depth+1)
	}
	return nil, false
}

func (eng *Engine) constGlobalTerm(g *Gen, gl *ssa.Global) string {
	name := "gc_" + sanitize(gl.Pkg.Pkg.Name()+"_"+gl.Name())
	et := gl.Type().Underlying().(*types.Pointer).Elem()
	if g.sc.declared[name] {
		return name
	}
	g.sc.declared[name] = true
	g.sc.emit("(declare-const %s %s)", name, g.sc.sorts.sortOf(et))
	if f := g.sc.sorts.rangeFact(et, name); f != "" {
		g.sc.emit("(assert %s)", f)
	}
	switch et.Underlying().(type) {
	case *types.Pointer, *types.Map:
		g.sc.emit("(assert (< (rb %s) %s))", name, g.oldFrontier)
	case *types.Slice:
		g.sc.emit("(assert (< (rb (sarr %s)) %s))", name, g.oldFrontier)
	}
	// scalar with a computable initialiser and no writer at all (not even the testing hook): its value is known
	if len(eng.mutators[gl]) == 0 {
		if v, ok := eng.evalInit(eng.globalInit[gl], 0); ok {
			if _, _, isInt := intBits(et); isInt {
				g.sc.emit("(assert (= %s %s))", name, smtInt(v))
			}
		} else if _, has := eng.globalInit[gl]; !has {
			if _, _, isInt := intBits(et); isInt {
				g.sc.emit("(assert (= %s 0))", name)
			}
		}
	}
	// sentinel errors created by errors.New in the initialiser: non-nil and pairwise distinct
	if call, ok := eng.globalInit[gl].(*ssa.Call); ok {
		if f := call.Common().StaticCallee(); f != nil && (f.String() == "errors.New" || f.String() == "fmt.Errorf") {
			g.sc.emit("(assert (not (= %s iface_nil)))", name)
			g.sc.emit("(assert (not (fresh_err %s)))", name)
			for _, o := range g.sc.errConsts {
				g.sc.emit("(assert (not (= %s %s)))", name, o)
			}
			g.sc.errConsts = append(g.sc.errConsts, name)
		}
	}
	if _, isSlice := et.Underlying().(*types.Slice); isSlice && !eng.elemMutable[gl] {
		eng.sliceInitFacts(g, gl, name)
	}
	g.assumptions["global "+gl.Pkg.Pkg.Path()+"."+gl.Name()+" is never reassigned after package initialisation (checked by SSA scan; testing hook config.SetAllActivations excluded)"] = true
	return name
}

// emitGlobalAxioms: assumed ground facts (axiom lines of the contract files), evaluated on the entry state.
func (eng *Engine) emitGlobalAxioms(g *Gen) {
	for _, ax := range eng.db.Axioms {
		if len(ax.Params) != 0 {
			continue
		}
		if g.fn != nil && g.fn.Package() != nil && g.fn.Package().Pkg.Path() != ax.Pkg {
			continue // axioms speak about the package-level data of their own package
		}
		env := &Env{g: g, sc: g.sc, eng: eng, st: g.entry, old: g.entry, vars: map[string]tv{}, pkg: eng.typesPkg(ax.Pkg)}
		n := len(g.sc.lines)
		t, err := env.formula(ax.Body)
		if err != nil {
			g.sc.truncate(n)
			continue
		}
		g.sc.emit("(assert %s)", t)
		g.assumptions["axiom "+strings.TrimPrefix(ax.Name, "axiom:")+": "+ax.Text+" (ground fact, checked against the real library by /verif/conformance)"] = true
	}
}

// initValue implements initval(pkg.X)
func (eng *Engine) initValue(e *Env, s *ESel) (tv, error) {
	x, err := e.eval(s.X)
	if err != nil || x.ty.Kind != "pkg" {
		// unqualified: current package
		return tv{}, fmt.Errorf("initval needs pkg.Name")
	}
	obj, ok := x.ty.Pkg.Scope().Lookup(s.F).(*types.Var)
	if !ok {
		return tv{}, fmt.Errorf("initval: %s is not a variable", s.F)
	}
	gl := eng.globalOf(obj)
	if gl == nil || !eng.constGlobal[gl] {
		return tv{}, fmt.Errorf("initval: %s is not a const global (writers: %v)", s.F, eng.mutators[gl])
	}
	v, ok := eng.evalInit(eng.globalInit[gl], 0)
	if !ok {
		return tv{}, fmt.Errorf("initval: initialiser of %s not computable", s.F)
	}
	return tv{t: smtInt(v), ty: stInt}, nil
}

// locationTags over-approximates the tags a modifies-location of a callee can touch.
func (eng *Engine) locationTags(g *Gen, ct *Contract, c *ssa.CallCommon, loc string) ([]string, bool) {
	if strings.TrimSpace(loc) == "fresh-objects" {
		return nil, true // any heap tag
	}
	// Build a typing environment from the callee signature only.
	fn := c.StaticCallee()
	if mc, ok := c.Value.(*ssa.MakeClosure); ok {
		fn = mc.Fn.(*ssa.Function)
	}
	sig := c.Signature()
	names, tys := calleeParams(fn, sig, false)
	dummy := &State{pc: "true", mem: map[string]string{}, locals: map[*ssa.Alloc]string{}}
	env := &Env{g: g, sc: g.sc, eng: eng, st: dummy, old: dummy, vars: map[string]tv{}}
	env.pkg = eng.typesPkg(ct.Pkg)
	if env.pkg == nil && fn != nil && fn.Pkg != nil {
		env.pkg = fn.Pkg.Pkg
	}
	if env.pkg == nil && fn != nil && fn.Parent() != nil {
		env.pkg = fn.Parent().Pkg.Pkg
	}
	for i := range names {
		env.vars[names[i]] = tv{t: "null", ty: goT(tys[i])}
		if _, isSl := tys[i].Underlying().(*types.Slice); isSl {
			env.vars[names[i]] = tv{t: "nilslice", ty: goT(tys[i])}
		}
	}
	if fn != nil {
		for _, fv := range fn.FreeVars {
			et := fv.Type().Underlying().(*types.Pointer).Elem()
			env.vars[fv.Name()] = tv{t: g.sc.sorts.zero(et), ty: goT(et), ref: "null"}
		}
	}
	x, err := ParseExpr(loc)
	if err != nil {
		return nil, true
	}
	nl := len(g.sc.lines)
	defer func() { g.sc.truncate(nl) }()
	tags := map[string]bool{}
	if cc, ok := x.(*ECall); ok && (cc.Fn == "contents" || cc.Fn == "elems") {
		v, err := env.eval(cc.Args[0])
		if err != nil || v.ty.Kind != "go" {
			return nil, true
		}
		switch u := v.ty.Go.Underlying().(type) {
		case *types.Map:
			d, vt, l := g.mapTags(u)
			tags[d], tags[vt], tags[l] = true, true, true
		case *types.Slice:
			g.collectElemTags(u.Elem(), tags)
		case *types.Pointer:
			g.collectElemTags(u.Elem(), tags)
		default:
			return nil, true
		}
	} else if s, ok := x.(*ESel); ok {
		bv, err := env.eval(s.X)
		if err != nil || bv.ty.Kind != "go" {
			return nil, true
		}
		base, _ := derefType(bv.ty.Go)
		if gf := eng.ghostField(base, s.F); gf != nil {
			ty, err := env.resolveType(gf.Type)
			if err != nil {
				return nil, true
			}
			tag := "GF!" + sanitize(gf.Owner) + "!" + gf.Name
			g.sc.regTag(tag, fmt.Sprintf("(Array Ref %s)", env.sortOfS(ty)))
			tags[tag] = true
		} else if stt, ok := base.Underlying().(*types.Struct); ok {
			for i := 0; i < stt.NumFields(); i++ {
				if stt.Field(i).Name() == s.F {
					ft := stt.Field(i).Type()
					if _, isS := ft.Underlying().(*types.Struct); isS {
						g.collectElemTags(ft, tags)
					} else {
						tags[g.fieldTag(base, i)] = true
					}
				}
			}
		} else {
			return nil, true
		}
	} else {
		v, err := env.eval(x)
		if err != nil || v.ty.Kind != "go" || v.ref == "" {
			return nil, true
		}
		g.collectElemTags(v.ty.Go, tags)
	}
	var out []string
	for t := range tags {
		out = append(out, t)
	}
	sort.Strings(out)
	return out, false
}

// FindFunction by contract key.
func (eng *Engine) FindFunction(key string) *ssa.Function {
	return eng.fnByKey[key]
}

// sliceInitFacts: for a never-reassigned package-level slice initialised with a composite literal of constants,
// state length and element fields (entry heap). The elements are assumed not to be written through the slice
// (no IndexAddr store on a value loaded from this global exists outside tests: checked by the same SSA scan).
func (eng *Engine) sliceInitFacts(g *Gen, gl *ssa.Global, name string) {
	sl, ok := eng.globalInit[gl].(*ssa.Slice)
	if !ok {
		return
	}
	arr, ok := sl.X.(*ssa.Alloc)
	if !ok || sl.Low != nil || sl.High != nil {
		return
	}
	at, ok := arr.Type().Underlying().(*types.Pointer).Elem().Underlying().(*types.Array)
	if !ok {
		return
	}
	g.sc.emit("(assert (and (= (slen %s) %d) (= (soff %s) 0) (not (= (sarr %s) null))))", name, at.Len(), name, name)
	fn := arr.Parent()
	for _, b := range fn.Blocks {
		for _, ins := range b.Instrs {
			st, ok := ins.(*ssa.Store)
			if !ok {
				continue
			}
			c, isConst := st.Val.(*ssa.Const)
			if !isConst {
				continue
			}
			var idx int64 = -1
			field := -1
			var structT types.Type
			switch a := st.Addr.(type) {
			case *ssa.FieldAddr:
				ia, ok := a.X.(*ssa.IndexAddr)
				if !ok || ia.X != arr {
					continue
				}
				ic, ok := ia.Index.(*ssa.Const)
				if !ok {
					continue
				}
				idx = ic.Int64()
				field = a.Field
				structT = at.Elem()
			case *ssa.IndexAddr:
				if a.X != arr {
					continue
				}
				ic, ok := a.Index.(*ssa.Const)
				if !ok {
					continue
				}
				idx = ic.Int64()
			default:
				continue
			}
			val := g.constTerm(c)
			if field >= 0 {
				tag := g.fieldTag(structT, field)
				if _, isS := c.Type().Underlying().(*types.Struct); isS {
					continue
				}
				g.sc.emit("(assert (= (select %s (fld (sidx %s %d) %d)) %s))", g.sc.tagDefault(tag, 0), name, idx, field, val)
			} else {
				tag := g.cellTag(c.Type())
				g.sc.emit("(assert (= (select %s (sidx %s %d)) %s))", g.sc.tagDefault(tag, 0), name, idx, val)
			}
		}
	}
	// zero-valued fields of a composite literal are not stored explicitly: the backing array starts zeroed
	g.assumptions["elements of "+gl.Pkg.Pkg.Path()+"."+gl.Name()+" keep their initial values (composite literal in the package initialiser)"] = true
}
