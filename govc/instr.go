package main

// Translation of individual SSA instructions.

import (
	"fmt"
	"go/token"
	"go/types"
	"math/big"
	"strings"

	"golang.org/x/tools/go/ssa"
)

func pow2(n int) *big.Int { return new(big.Int).Lsh(big.NewInt(1), uint(n)) }

func intBits(t types.Type) (bits int, signed bool, ok bool) {
	b, isB := t.Underlying().(*types.Basic)
	if !isB || b.Info()&types.IsInteger == 0 {
		return 0, false, false
	}
	switch b.Kind() {
	case types.Int8:
		return 8, true, true
	case types.Int16:
		return 16, true, true
	case types.Int32:
		return 32, true, true
	case types.Int, types.Int64:
		return 64, true, true
	case types.Uint8:
		return 8, false, true
	case types.Uint16:
		return 16, false, true
	case types.Uint32:
		return 32, false, true
	case types.Uint, types.Uint64, types.Uintptr:
		return 64, false, true
	}
	return 64, true, true
}

// wrapTo gives the machine value of mathematical integer term x in type t.
func wrapTo(x string, t types.Type) string {
	bits, signed, ok := intBits(t)
	if !ok {
		return x
	}
	m := pow2(bits).String()
	if !signed {
		return fmt.Sprintf("(mod %s %s)", x, m)
	}
	h := pow2(bits - 1).String()
	return fmt.Sprintf("(- (mod (+ %s %s) %s) %s)", x, h, m, h)
}

func inRange(x string, t types.Type) string {
	lo, hi, ok := intRange(t)
	if !ok {
		return "true"
	}
	return fmt.Sprintf("(and (<= %s %s) (<= %s %s))", smtInt(lo), x, x, smtInt(hi))
}

func (g *Gen) arithChecked() bool { return g.ct != nil && g.ct.Arith == "checked" }

func (g *Gen) instr(st *State, ins ssa.Instruction) {
	g.curIns = ins
	switch x := ins.(type) {
	case *ssa.DebugRef:
	case *ssa.Phi:
		// handled at block entry
	case *ssa.BinOp:
		g.binop(st, x)
	case *ssa.UnOp:
		g.unop(st, x)
	case *ssa.Alloc:
		et := x.Type().Underlying().(*types.Pointer).Elem()
		if !g.escape[x] {
			st.locals[x] = g.sc.sorts.zero(et)
			g.lp[x] = &localPath{alloc: x}
			return
		}
		r := g.allocRef(st, x.Comment)
		g.val[x] = r
		g.storeFresh = true
		g.storeAt(st, r, et, "", g.sc.sorts.zero(et))
		g.storeFresh = false
		g.initGhostFields(st, et, r)
	case *ssa.FieldAddr:
		if g.localPathOf(x) != nil {
			return
		}
		base := g.term(x.X)
		if _, isParam := x.X.(*ssa.Parameter); !isParam {
			g.derefCheck(st, x.X, x.Pos())
		}
		g.setVal(x, fmt.Sprintf("(fld %s %d)", base, x.Field))
	case *ssa.Field:
		ss := g.sc.sorts.structOf(x.X.Type())
		g.setVal(x, fmt.Sprintf("(%s %s)", ss.fields[x.Field], g.term(x.X)))
	case *ssa.IndexAddr:
		if g.localPathOf(x) != nil {
			return
		}
		i := g.term(x.Index)
		switch u := x.X.Type().Underlying().(type) {
		case *types.Slice:
			s := g.term(x.X)
			g.safety("bounds", st, fmt.Sprintf("(and (<= 0 %s) (< %s (slen %s)))", i, i, s), x.Pos())
			g.setVal(x, fmt.Sprintf("(sidx %s %s)", s, i))
		case *types.Pointer: // pointer to array
			arr := u.Elem().Underlying().(*types.Array)
			g.safety("bounds", st, fmt.Sprintf("(and (<= 0 %s) (< %s %d))", i, i, arr.Len()), x.Pos())
			g.setVal(x, fmt.Sprintf("(idx %s %s)", g.term(x.X), i))
		default:
			g.refusef("IndexAddr on %s", x.X.Type())
		}
	case *ssa.Index:
		i := g.term(x.Index)
		switch u := x.X.Type().Underlying().(type) {
		case *types.Array:
			g.safety("bounds", st, fmt.Sprintf("(and (<= 0 %s) (< %s %d))", i, i, u.Len()), x.Pos())
			if isByteLike(u.Elem()) {
				g.val[x] = g.freshOf("byteat", x.Type())
			} else {
				g.setVal(x, fmt.Sprintf("(select %s %s)", g.term(x.X), i))
			}
		case *types.Basic: // string
			g.safety("bounds", st, fmt.Sprintf("(and (<= 0 %s) (< %s (strlen %s)))", i, i, g.term(x.X)), x.Pos())
			g.val[x] = g.freshOf("strat", x.Type())
		default:
			g.refusef("Index on %s", x.X.Type())
		}
	case *ssa.Store:
		if p := g.localPathOf(x.Addr); p != nil {
			g.localSet(st, p, g.term(x.Val))
			return
		}
		g.derefCheck(st, x.Addr, x.Pos())
		if gl, ok := x.Addr.(*ssa.Global); ok && g.eng.constGlobal[gl] {
			g.refusef("store to const global %s", gl.Name())
			return
		}
		g.storeFresh = g.isFreshRoot(x.Addr)
		g.storeAt(st, g.term(x.Addr), x.Val.Type(), g.leafTagFor(x.Addr, x.Val.Type()), g.term(x.Val))
		g.storeFresh = false
	case *ssa.Lookup:
		g.lookup(st, x)
	case *ssa.MapUpdate:
		mt := x.Map.Type().Underlying().(*types.Map)
		m := g.term(x.Map)
		g.safety("nilmap", st, fmt.Sprintf("(not (= %s null))", m), x.Pos())
		g.storeFresh = g.isFreshRoot(x.Map)
		g.mapUpdate(st, mt, m, g.term(x.Key), g.term(x.Value))
		g.storeFresh = false
	case *ssa.MakeMap:
		mt := x.Type().Underlying().(*types.Map)
		r := g.allocRef(st, "map")
		g.val[x] = r
		d, _, l := g.mapTags(mt)
		ks := g.sc.sorts.sortOf(mt.Key())
		st.mem[d] = g.sc.define("m_dom", g.sc.tagSort[d], fmt.Sprintf("(store %s %s ((as const (Array %s Bool)) false))", g.sc.lookup(st, d), r, ks))
		st.mem[l] = g.sc.define("m_len", g.sc.tagSort[l], fmt.Sprintf("(store %s %s 0)", g.sc.lookup(st, l), r))
	case *ssa.MakeSlice:
		r := g.allocRef(st, "slice")
		ln, cp := g.term(x.Len), g.term(x.Cap)
		g.safety("makeslice", st, fmt.Sprintf("(and (<= 0 %s) (<= %s %s))", ln, ln, cp), x.Pos())
		g.setVal(x, fmt.Sprintf("(mkslice %s 0 %s %s)", r, ln, cp))
		g.zeroSliceCells(st, r, x.Type().Underlying().(*types.Slice).Elem())
	case *ssa.Slice:
		g.sliceOp(st, x)
	case *ssa.MakeInterface:
		g.setVal(x, g.box(x.X.Type(), g.term(x.X)))
	case *ssa.ChangeInterface:
		g.setVal(x, g.term(x.X))
	case *ssa.ChangeType:
		if g.sc.sorts.sortOf(x.Type()) != g.sc.sorts.sortOf(x.X.Type()) {
			g.refusef("ChangeType between different sorts %s -> %s", x.X.Type(), x.Type())
			return
		}
		g.setVal(x, g.term(x.X))
	case *ssa.Convert:
		g.convert(st, x)
	case *ssa.TypeAssert:
		g.typeAssert(st, x)
	case *ssa.Extract:
		if ts, ok := g.tup[x.Tuple]; ok && x.Index < len(ts) {
			g.val[x] = ts[x.Index]
		} else {
			g.val[x] = g.freshOf("extract", x.Type())
		}
	case *ssa.MakeClosure:
		fnv := x.Fn.(*ssa.Function)
		n := g.sc.fresh("closure_"+fnv.Name(), "Func")
		g.sc.emit("(assert (not (= %s func_nil)))", n)
		g.val[x] = n
		g.eng.closureBindings[x] = x.Bindings
	case *ssa.Range:
		tag := g.visTag(x)
		if g.refuse != "" {
			return
		}
		mt := x.X.Type().Underlying().(*types.Map)
		st.mem[tag] = g.sc.define("vis0", g.sc.tagSort[tag], fmt.Sprintf("((as const (Array %s Bool)) false)", g.sc.sorts.sortOf(mt.Key())))
		g.val[x] = "null"
	case *ssa.Next:
		g.next(st, x)
	case *ssa.Call:
		g.call(st, x, x.Common(), x)
	case *ssa.Defer:
		g.defers = append(g.defers, x)
	case *ssa.RunDefers:
		g.runDefers(st, x)
	case *ssa.Return:
		var rs []string
		for _, r := range x.Results {
			rs = append(rs, g.term(r))
		}
		g.rets = append(g.rets, retPoint{st: st.clone(), results: rs, prefix: len(g.sc.lines)})
		g.pathPoints = append(g.pathPoints, pathPoint{label: "return:" + g.lastLine(x.Block()), pc: st.pc, prefix: len(g.sc.lines)})
	case *ssa.If, *ssa.Jump:
	case *ssa.Panic:
		if g.ct == nil || g.ct.NoPanic {
			g.addObl("panic", g.srcLine(x.Pos()), st, "false", x.Pos())
		}
	case *ssa.SliceToArrayPointer:
		g.val[x] = g.freshOf("s2a", x.Type())
	default:
		g.refusef("unsupported instruction %T (%s)", ins, ins)
	}
}

func (g *Gen) zeroSliceCells(st *State, arr string, et types.Type) {
	// all cells of a fresh backing array are zero: forall i. M[idx(arr,i)...] = zero
	tags := map[string]bool{}
	g.collectElemTags(et, tags)
	var leafZero func(t types.Type, path func(string) string)
	leafZero = func(t types.Type, path func(string) string) {
		switch u := t.Underlying().(type) {
		case *types.Struct:
			for i := 0; i < u.NumFields(); i++ {
				ii := i
				ft := u.Field(i).Type()
				if _, isS := ft.Underlying().(*types.Struct); isS {
					leafZero(ft, func(b string) string { return fmt.Sprintf("(fld %s %d)", path(b), ii) })
				} else if arrT, isA := ft.Underlying().(*types.Array); isA && !isByteLike(arrT.Elem()) {
					// skip nested arrays
				} else {
					tag := g.fieldTag(t, i)
					cur := g.sc.lookup(st, tag)
					n := g.sc.fresh("mz_"+tag, g.sc.tagSort[tag])
					g.sc.emit("(assert (forall ((r Ref)) (! (= (select %s r) (ite (= (rb r) (rb %s)) (select %s r) (select %s r))) :pattern ((select %s r)))))", n, arr, n, cur, n)
					g.sc.emit("(assert (forall ((i Int)) (! (= (select %s %s) %s) :pattern ((select %s %s)))))", n, fmt.Sprintf("(fld %s %d)", path("(idx "+arr+" i)"), ii), g.sc.sorts.zero(ft), n, fmt.Sprintf("(fld %s %d)", path("(idx "+arr+" i)"), ii))
					st.mem[tag] = n
					g.sc.setStep(n, cur, fmt.Sprintf("(rb %s)", arr))
				}
			}
		default:
			if arrT, isA := t.Underlying().(*types.Array); isA && !isByteLike(arrT.Elem()) {
				return
			}
			tag := g.cellTag(t)
			cur := g.sc.lookup(st, tag)
			n := g.sc.fresh("mz_"+tag, g.sc.tagSort[tag])
			g.sc.emit("(assert (forall ((r Ref)) (! (=> (not (= (rb r) (rb %s))) (= (select %s r) (select %s r))) :pattern ((select %s r)))))", arr, n, cur, n)
			g.sc.emit("(assert (forall ((i Int)) (! (= (select %s %s) %s) :pattern ((select %s %s)))))", n, path("(idx "+arr+" i)"), g.sc.sorts.zero(t), n, path("(idx "+arr+" i)"))
			st.mem[tag] = n
			g.sc.setStep(n, cur, fmt.Sprintf("(rb %s)", arr))
		}
	}
	leafZero(et, func(b string) string { return b })
}

func (g *Gen) derefCheck(st *State, ptr ssa.Value, pos token.Pos) {
	switch ptr.(type) {
	case *ssa.Parameter, *ssa.Alloc, *ssa.FieldAddr, *ssa.IndexAddr, *ssa.Global, *ssa.FreeVar:
		return
	}
	g.safety("nilderef", st, fmt.Sprintf("(not (= %s null))", g.term(ptr)), pos)
}

func (g *Gen) box(t types.Type, v string) string {
	if _, isIface := t.Underlying().(*types.Interface); isIface {
		return v
	}
	id := g.sc.sorts.ifaceID(t)
	fn := fmt.Sprintf("box_%d", id)
	srt := g.sc.sorts.sortOf(t)
	if !g.sc.declared[fn] {
		g.sc.declared[fn] = true
		g.sc.emit("(declare-fun %s (%s) Iface)", fn, srt)
		g.sc.emit("(declare-fun un%s (Iface) %s)", fn, srt)
		g.sc.emit("(assert (forall ((x %s)) (! (and (= (typeof (%s x)) %d) (= (un%s (%s x)) x) (not (= (%s x) iface_nil))) :pattern ((%s x)))))", srt, fn, id, fn, fn, fn, fn)
	}
	return fmt.Sprintf("(%s %s)", fn, v)
}

func (g *Gen) typeAssert(st *State, x *ssa.TypeAssert) {
	v := g.term(x.X)
	if _, isIface := x.AssertedType.Underlying().(*types.Interface); isIface {
		// interface-to-interface assertion: only nil-ness is known
		if x.CommaOk {
			ok := g.sc.fresh("taok", "Bool")
			g.sc.emit("(assert (=> %s (not (= %s iface_nil))))", ok, v)
			g.tup[x] = []string{v, ok}
		} else {
			g.safety("typeassert", st, fmt.Sprintf("(not (= %s iface_nil))", v), x.Pos())
			g.setVal(x, v)
		}
		return
	}
	id := g.sc.sorts.ifaceID(x.AssertedType)
	g.box(x.AssertedType, g.sc.sorts.zero(x.AssertedType)) // make sure box/unbox are declared
	is := fmt.Sprintf("(= (typeof %s) %d)", v, id)
	un := fmt.Sprintf("(unbox_%d %s)", id, v)
	if x.CommaOk {
		okn := g.sc.define("taok", "Bool", is)
		vn := g.sc.define("taval", g.sc.sorts.sortOf(x.AssertedType), fmt.Sprintf("(ite %s %s %s)", okn, un, g.sc.sorts.zero(x.AssertedType)))
		g.tup[x] = []string{vn, okn}
		return
	}
	g.safety("typeassert", st, is, x.Pos())
	g.setVal(x, un)
	if f := g.sc.sorts.rangeFact(x.AssertedType, g.val[x]); f != "" {
		g.sc.emit("(assert %s)", f)
	}
	g.assumeKnownRef(st, x.AssertedType, g.val[x])
}

func (g *Gen) lookup(st *State, x *ssa.Lookup) {
	switch u := x.X.Type().Underlying().(type) {
	case *types.Map:
		v, ok := g.mapLookup(st, u, g.term(x.X), g.term(x.Index))
		if x.CommaOk {
			vn := g.sc.define("mapv", g.sc.sorts.sortOf(u.Elem()), v)
			okn := g.sc.define("mapok", "Bool", ok)
			g.tup[x] = []string{vn, okn}
			g.mapValueFacts(st, u, vn)
			return
		}
		g.setVal(x, v)
		g.mapValueFacts(st, u, g.val[x])
	case *types.Basic: // string index
		i := g.term(x.Index)
		g.safety("bounds", st, fmt.Sprintf("(and (<= 0 %s) (< %s (strlen %s)))", i, i, g.term(x.X)), x.Pos())
		g.val[x] = g.freshOf("strat", x.Type())
	default:
		g.refusef("Lookup on %s", x.X.Type())
	}
}

func (g *Gen) mapValueFacts(st *State, mt *types.Map, v string) {
	if f := g.sc.sorts.rangeFact(mt.Elem(), v); f != "" {
		g.sc.emit("(assert %s)", f)
	}
	g.assumeKnownRef(st, mt.Elem(), v)
}

func (g *Gen) next(st *State, x *ssa.Next) {
	if x.IsString {
		g.refusef("range over string")
		return
	}
	rng, ok := x.Iter.(*ssa.Range)
	if !ok {
		g.refusef("next on non-range iterator")
		return
	}
	mt := rng.X.Type().Underlying().(*types.Map)
	tag := g.visTag(rng)
	vis := g.sc.lookup(st, tag)
	m := g.term(rng.X)
	dom := g.mapDomOf(st, mt, m)
	vals := g.mapValOf(st, mt, m)
	ks := g.sc.sorts.sortOf(mt.Key())
	ok1 := g.sc.fresh("next_ok", "Bool")
	k := g.freshOf("next_k", mt.Key())
	v := g.sc.define("next_v", g.sc.sorts.sortOf(mt.Elem()), fmt.Sprintf("(select %s %s)", vals, k))
	g.mapValueFacts(st, mt, v)
	g.sc.assume(st.pc, fmt.Sprintf("(=> %s (and (select %s %s) (not (select %s %s))))", ok1, dom, k, vis, k))
	g.sc.assume(st.pc, fmt.Sprintf("(=> (not %s) (forall ((kk %s)) (! (=> (select %s kk) (select %s kk)) :pattern ((select %s kk)))))", ok1, ks, dom, vis, dom))
	st.mem[tag] = g.sc.define("vis", g.sc.tagSort[tag], fmt.Sprintf("(ite %s (store %s %s true) %s)", ok1, vis, k, vis))
	g.tup[x] = []string{ok1, k, v}
}

func (g *Gen) sliceOp(st *State, x *ssa.Slice) {
	lo, hi, mx := "0", "", ""
	if x.Low != nil {
		lo = g.term(x.Low)
	}
	if x.High != nil {
		hi = g.term(x.High)
	}
	if x.Max != nil {
		mx = g.term(x.Max)
	}
	switch u := x.X.Type().Underlying().(type) {
	case *types.Slice:
		s := g.term(x.X)
		if hi == "" {
			hi = fmt.Sprintf("(slen %s)", s)
		}
		capT := fmt.Sprintf("(scap %s)", s)
		if mx != "" {
			g.safety("slice", st, fmt.Sprintf("(and (<= 0 %s) (<= %s %s) (<= %s %s) (<= %s (scap %s)))", lo, lo, hi, hi, mx, mx, s), x.Pos())
			capT = mx
		} else {
			g.safety("slice", st, fmt.Sprintf("(and (<= 0 %s) (<= %s %s) (<= %s (scap %s)))", lo, lo, hi, hi, s), x.Pos())
		}
		g.setVal(x, fmt.Sprintf("(mkslice (sarr %s) (+ (soff %s) %s) (- %s %s) (- %s %s))", s, s, lo, hi, lo, capT, lo))
	case *types.Pointer: // *[N]T
		arr := u.Elem().Underlying().(*types.Array)
		if p := g.localPathOf(x.X); p != nil {
			// slicing a non-escaping local array cannot happen (it would escape)
			g.refusef("slice of local array")
			return
		}
		n := fmt.Sprintf("%d", arr.Len())
		if hi == "" {
			hi = n
		}
		g.safety("slice", st, fmt.Sprintf("(and (<= 0 %s) (<= %s %s) (<= %s %s))", lo, lo, hi, hi, n), x.Pos())
		g.setVal(x, fmt.Sprintf("(mkslice %s %s (- %s %s) (- %s %s))", g.term(x.X), lo, hi, lo, n, lo))
		// anchors for quantifier instantiation: the positions of a small literal ("exists j :: s[j] == k" needs a candidate j)
		if arr.Len() <= 4 && !isByteLike(arr.Elem()) {
			for k := int64(0); k < arr.Len(); k++ {
				g.sc.emit("(assert (anchor (sidx %s %d)))", g.val[x], k)
			}
		}
	case *types.Basic: // string
		s := g.term(x.X)
		if hi == "" {
			hi = fmt.Sprintf("(strlen %s)", s)
		}
		g.safety("slice", st, fmt.Sprintf("(and (<= 0 %s) (<= %s %s) (<= %s (strlen %s)))", lo, lo, hi, hi, s), x.Pos())
		n := g.sc.fresh("substr", "Str")
		g.sc.emit("(assert (= (strlen %s) (- %s %s)))", n, hi, lo)
		g.val[x] = n
	default:
		g.refusef("Slice on %s", x.X.Type())
	}
}

func (g *Gen) convert(st *State, x *ssa.Convert) {
	from, to := x.X.Type(), x.Type()
	fb, fok := from.Underlying().(*types.Basic)
	tb, tok := to.Underlying().(*types.Basic)
	v := g.term(x.X)
	switch {
	case fok && tok && fb.Info()&types.IsInteger != 0 && tb.Info()&types.IsInteger != 0:
		flo, fhi, _ := intRange(from)
		tlo, thi, _ := intRange(to)
		if flo != nil && tlo != nil && flo.Cmp(tlo) >= 0 && fhi.Cmp(thi) <= 0 {
			g.setVal(x, v)
		} else {
			g.setVal(x, wrapTo(v, to))
		}
	case fok && tok && fb.Info()&types.IsInteger != 0 && tb.Info()&types.IsFloat != 0:
		sfx := ""
		if g.ct != nil && g.ct.FloatAbs {
			sfx = "_u"
		}
		if _, signed, _ := intBits(from); signed {
			g.setVal(x, fmt.Sprintf("(i2f%s %s)", sfx, v))
		} else {
			g.setVal(x, fmt.Sprintf("(u2f%s %s)", sfx, v))
		}
	case fok && tok && fb.Info()&types.IsFloat != 0 && tb.Info()&types.IsInteger != 0:
		n := g.freshOf("f2i", to)
		if g.ct != nil && g.ct.FloatAbs {
			g.sc.emit("(assert (= %s (f2u_u %s)))", n, v)
		} else {
			g.sc.emit("(assert (= %s (f2u %s)))", n, v)
		}
		g.val[x] = n
	case fok && tok && fb.Info()&types.IsFloat != 0 && tb.Info()&types.IsFloat != 0:
		g.setVal(x, v)
	default:
		// string <-> []byte etc: opaque
		n := g.freshOf("conv", to)
		g.val[x] = n
		if sl, ok := to.Underlying().(*types.Slice); ok {
			_ = sl
			g.sc.emit("(assert (>= (rb (sarr %s)) %s))", n, g.frontier(st))
			if fok && fb.Info()&types.IsString != 0 && isByteLike(sl.Elem()) {
				g.sc.emit("(assert (= (slen %s) (strlen %s)))", n, v) // []byte(s) has len(s) bytes
			}
		}
		if tok && tb.Info()&types.IsString != 0 {
			if sl, ok := from.Underlying().(*types.Slice); ok && isByteLike(sl.Elem()) {
				g.sc.emit("(assert (= (strlen %s) (slen %s)))", n, v) // string(b) has len(b) bytes
			}
		}
	}
}

func (g *Gen) unop(st *State, x *ssa.UnOp) {
	switch x.Op {
	case token.MUL: // load
		if p := g.localPathOf(x.X); p != nil {
			g.setVal(x, g.localGet(st, p))
			return
		}
		if gl, ok := x.X.(*ssa.Global); ok && g.eng.constGlobal[gl] {
			g.val[x] = g.eng.constGlobalTerm(g, gl)
			return
		}
		g.derefCheck(st, x.X, x.Pos())
		g.setVal(x, g.loadAt(st, g.term(x.X), x.Type(), g.leafTagFor(x.X, x.Type())))
		if f := g.sc.sorts.rangeFact(x.Type(), g.val[x]); f != "" {
			g.sc.emit("(assert %s)", f)
		}
		g.assumeKnownRef(st, x.Type(), g.val[x])
	case token.NOT:
		g.setVal(x, fmt.Sprintf("(not %s)", g.term(x.X)))
	case token.SUB:
		if b, ok := x.Type().Underlying().(*types.Basic); ok && b.Info()&types.IsFloat != 0 {
			g.setVal(x, fmt.Sprintf("(fp.neg %s)", g.term(x.X)))
			return
		}
		r := fmt.Sprintf("(- %s)", g.term(x.X))
		g.arith(st, x, x.Type(), r, x.Pos())
	case token.XOR:
		g.val[x] = g.freshOf("bitnot", x.Type())
	case token.ARROW:
		g.refusef("channel receive")
	default:
		g.refusef("unop %s", x.Op)
	}
}

func (g *Gen) arith(st *State, v ssa.Value, t types.Type, exact string, pos token.Pos) {
	if g.arithChecked() {
		e := g.sc.define(v.Name()+"_exact", "Int", exact)
		g.safety("overflow", st, inRange(e, t), pos)
		g.setVal(v, e)
		return
	}
	g.setVal(v, wrapTo(exact, t))
}

func (g *Gen) binop(st *State, x *ssa.BinOp) {
	a, b := g.term(x.X), g.term(x.Y)
	t := x.X.Type()
	bt, isBasic := t.Underlying().(*types.Basic)
	isInt := isBasic && bt.Info()&types.IsInteger != 0
	isFloat := isBasic && bt.Info()&types.IsFloat != 0
	isStr := isBasic && bt.Info()&types.IsString != 0
	switch x.Op {
	case token.EQL, token.NEQ:
		eq := fmt.Sprintf("(= %s %s)", a, b)
		if isFloat {
			eq = fmt.Sprintf("(fp.eq %s %s)", a, b)
		}
		if _, isSlice := t.Underlying().(*types.Slice); isSlice {
			// only comparison with nil is legal
			other := a
			if c, ok := x.X.(*ssa.Const); ok && c.Value == nil {
				other = b
			}
			eq = fmt.Sprintf("(= (sarr %s) null)", other)
		}
		if x.Op == token.NEQ {
			eq = "(not " + eq + ")"
		}
		g.setVal(x, eq)
	case token.LSS, token.LEQ, token.GTR, token.GEQ:
		op := map[token.Token]string{token.LSS: "<", token.LEQ: "<=", token.GTR: ">", token.GEQ: ">="}[x.Op]
		if isFloat {
			op = map[token.Token]string{token.LSS: "fp.lt", token.LEQ: "fp.leq", token.GTR: "fp.gt", token.GEQ: "fp.geq"}[x.Op]
			if g.ct != nil && g.ct.FloatAbs {
				op = map[token.Token]string{token.LSS: "flt_u", token.LEQ: "fleq_u", token.GTR: "fgt_u", token.GEQ: "fgeq_u"}[x.Op]
			}
		}
		if isStr {
			g.val[x] = g.sc.fresh("strcmp", "Bool")
			return
		}
		g.setVal(x, fmt.Sprintf("(%s %s %s)", op, a, b))
	case token.ADD, token.SUB, token.MUL:
		if isStr {
			g.setVal(x, fmt.Sprintf("(strcat %s %s)", a, b)) // concatenation is a function of its operands
			return
		}
		if isFloat {
			if g.ct != nil && g.ct.FloatAbs {
				op := map[token.Token]string{token.ADD: "fadd_u", token.SUB: "fsub_u", token.MUL: "fmul_u"}[x.Op]
				g.setVal(x, fmt.Sprintf("(%s %s %s)", op, a, b))
				return
			}
			op := map[token.Token]string{token.ADD: "fp.add", token.SUB: "fp.sub", token.MUL: "fp.mul"}[x.Op]
			g.setVal(x, fmt.Sprintf("(%s RNE %s %s)", op, a, b))
			return
		}
		op := map[token.Token]string{token.ADD: "+", token.SUB: "-", token.MUL: "*"}[x.Op]
		// the synthetic "rangeindex + 1" cannot overflow: rangeindex < len <= MaxInt (auto-invariant)
		if phi, ok := x.X.(*ssa.Phi); ok && phi.Comment == "rangeindex" && x.Op == token.ADD && b == "1" && !x.Pos().IsValid() {
			g.setVal(x, fmt.Sprintf("(+ %s 1)", a))
			return
		}
		g.arith(st, x, x.Type(), fmt.Sprintf("(%s %s %s)", op, a, b), x.Pos())
	case token.QUO, token.REM:
		if isFloat {
			g.setVal(x, fmt.Sprintf("(fp.div RNE %s %s)", a, b))
			return
		}
		if isInt {
			g.safety("div0", st, fmt.Sprintf("(not (= %s 0))", b), x.Pos())
			if x.Op == token.QUO {
				_, signed, _ := intBits(t)
				if signed {
					g.arith(st, x, x.Type(), fmt.Sprintf("(go_div %s %s)", a, b), x.Pos())
				} else {
					g.setVal(x, fmt.Sprintf("(div %s %s)", a, b))
				}
			} else {
				_, signed, _ := intBits(t)
				if signed {
					g.setVal(x, fmt.Sprintf("(go_rem %s %s)", a, b))
				} else {
					g.setVal(x, fmt.Sprintf("(mod %s %s)", a, b))
				}
			}
			return
		}
		g.refusef("quo on %s", t)
	case token.AND, token.OR, token.XOR, token.SHL, token.SHR, token.AND_NOT:
		if x.Type().Underlying().(*types.Basic).Info()&types.IsBoolean != 0 {
			op := map[token.Token]string{token.AND: "and", token.OR: "or", token.XOR: "xor"}[x.Op]
			g.setVal(x, fmt.Sprintf("(%s %s %s)", op, a, b))
			return
		}
		// bit operations: constants are folded, otherwise an uninterpreted function per operator
		opn := map[token.Token]string{token.AND: "and", token.OR: "or", token.XOR: "xor", token.SHL: "shl", token.SHR: "shr", token.AND_NOT: "andnot"}[x.Op]
		n := g.freshOf("bits", x.Type())
		g.sc.emit("(assert (= %s %s))", n, g.bitOp(opn, a, b))
		g.val[x] = n
	default:
		g.refusef("binop %s", x.Op)
	}
}

func (g *Gen) runDefers(st *State, x *ssa.RunDefers) {
	for i := len(g.defers) - 1; i >= 0; i-- {
		d := g.defers[i]
		if !d.Block().Dominates(x.Block()) {
			if !blockReaches(d.Block(), x.Block()) {
				continue // this exit is not downstream of the defer statement (an earlier return): it was never registered here
			}
			g.refusef("conditional defer")
			return
		}
		g.call(st, nil, d.Common(), d)
	}
}

var _ = strings.Join

// blockReaches: some path of the control-flow graph leads from a to b.
func blockReaches(a, b *ssa.BasicBlock) bool {
	seen := map[*ssa.BasicBlock]bool{}
	stack := []*ssa.BasicBlock{a}
	for len(stack) > 0 {
		x := stack[len(stack)-1]
		stack = stack[:len(stack)-1]
		if x == b {
			return true
		}
		if seen[x] {
			continue
		}
		seen[x] = true
		stack = append(stack, x.Succs...)
	}
	return false
}

// bitOp folds constant operands and otherwise applies an uninterpreted function with a few sound axioms.
func (g *Gen) bitOp(op, a, b string) string {
	ai, aok := new(big.Int).SetString(a, 10)
	bi, bok := new(big.Int).SetString(b, 10)
	if aok && bok && ai.Sign() >= 0 && bi.Sign() >= 0 {
		r := new(big.Int)
		switch op {
		case "and":
			return r.And(ai, bi).String()
		case "or":
			return r.Or(ai, bi).String()
		case "xor":
			return r.Xor(ai, bi).String()
		case "andnot":
			return r.AndNot(ai, bi).String()
		case "shl":
			if bi.IsInt64() && bi.Int64() < 64 {
				return r.Lsh(ai, uint(bi.Int64())).String()
			}
		case "shr":
			if bi.IsInt64() && bi.Int64() < 1024 {
				return r.Rsh(ai, uint(bi.Int64())).String()
			}
		}
	}
	fn := "bit_" + op
	if !g.sc.declared[fn] {
		g.sc.declared[fn] = true
		g.sc.emit("(declare-fun %s (Int Int) Int)", fn)
		if fn == "bit_or" {
			g.sc.emit("(assert (forall ((a Int) (b Int)) (! (and (= (bit_or a a) a) (= (bit_or a 0) a) (= (bit_or 0 a) a)) :pattern ((bit_or a b)))))")
		}
	}
	return fmt.Sprintf("(%s %s %s)", fn, a, b)
}

// initGhostFields: integer ghost fields of a freshly allocated object start at 0 (e.g. new(big.Int)).
func (g *Gen) initGhostFields(st *State, t types.Type, ref string) {
	n, ok := t.(*types.Named)
	if !ok || n.Obj().Pkg() == nil {
		return
	}
	owner := n.Obj().Pkg().Path() + "." + n.Obj().Name()
	for _, gf := range g.eng.db.GhostFields {
		if gf.Owner == owner && gf.Type == "int" {
			tag := "GF!" + sanitize(gf.Owner) + "!" + gf.Name
			g.sc.regTag(tag, "(Array Ref Int)")
			st.mem[tag] = g.sc.define("m_"+tag, "(Array Ref Int)", fmt.Sprintf("(store %s %s 0)", g.sc.lookup(st, tag), ref))
		}
	}
}
