package main

// Calls: builtins, contract application (modular), closures, havoc fallbacks.

import (
	"fmt"
	"go/token"
	"go/types"
	"strings"

	"golang.org/x/tools/go/ssa"
)

func calleeKey(c *ssa.CallCommon) string {
	if c.IsInvoke() {
		return fmt.Sprintf("(%s).%s", c.Value.Type().String(), c.Method.Name())
	}
	if f := c.StaticCallee(); f != nil {
		return f.String()
	}
	return ""
}

// setResults binds call results (single or tuple).
func (g *Gen) setResults(v ssa.Value, sig *types.Signature, terms []string) {
	if v == nil {
		return
	}
	if sig.Results().Len() == 1 {
		g.val[v] = terms[0]
	} else if sig.Results().Len() > 1 {
		g.tup[v] = terms
	}
}

func (g *Gen) freshResults(st *State, prefix string, sig *types.Signature) []string {
	var rs []string
	for i := 0; i < sig.Results().Len(); i++ {
		t := g.freshOf(prefix+"_r", sig.Results().At(i).Type())
		rs = append(rs, t)
	}
	return rs
}

// countCall bumps the ghost counter of calls to a repo function (used by gating contracts: calls("F")).
func (g *Gen) countCall(st *State, key string) {
	if !strings.Contains(key, repoMod) {
		return
	}
	tag := "N!" + shortName(key)
	g.sc.regTag(tag, "Int")
	st.mem[tag] = g.sc.define("calls", "Int", fmt.Sprintf("(+ %s 1)", g.sc.lookup(st, tag)))
}

func shortName(key string) string {
	if i := strings.LastIndex(key, "."); i >= 0 {
		return key[i+1:]
	}
	return key
}

func (g *Gen) call(st *State, v ssa.Value, c *ssa.CallCommon, ins ssa.Instruction) {
	pos := ins.Pos()
	if _, isDefer := ins.(*ssa.Defer); !isDefer {
		if k := calleeKey(c); k != "" {
			defer g.countCall(st, k)
		}
	}
	if b, ok := c.Value.(*ssa.Builtin); ok {
		g.builtin(st, v, b, c, pos)
		return
	}
	sig := c.Signature()
	key := calleeKey(c)
	var args []string
	var argVals []ssa.Value
	if c.IsInvoke() {
		args = append(args, g.term(c.Value))
		argVals = append(argVals, c.Value)
	}
	for _, a := range c.Args {
		args = append(args, g.term(a))
		argVals = append(argVals, a)
	}
	if c.IsInvoke() {
		g.safety("nilinvoke", st, fmt.Sprintf("(not (= %s iface_nil))", g.term(c.Value)), pos)
	}
	// closures created in this function: apply the contract of the anonymous function
	if mc, ok := c.Value.(*ssa.MakeClosure); ok {
		fnv := mc.Fn.(*ssa.Function)
		key = fnv.String()
		var full []string
		full = append(full, args...)
		if ct := g.eng.db.Contracts[key]; ct != nil {
			g.applyContract(st, v, ct, fnv, sig, full, mc.Bindings, pos)
			return
		}
		g.unknownCall(st, v, key, sig)
		return
	}
	if key == "" {
		g.unknownCall(st, v, "dynamic call", sig)
		return
	}
	// sort.Slice / sort.SliceStable permute the elements of the slice in place (built-in rule; the comparison closure is
	// assumed not to write the heap). Nothing is assumed about the resulting order here: see the determinism scan.
	if key == "sort.Slice" || key == "sort.SliceStable" {
		g.siteRequires(st, ins, key, pos, c, args) // e.g. "the sort key is a total order on the elements"
		if mi, ok := c.Args[0].(*ssa.MakeInterface); ok {
			if sl, ok := mi.X.Type().Underlying().(*types.Slice); ok {
				tags := map[string]bool{}
				g.collectElemTags(sl.Elem(), tags)
				sv := g.term(mi.X)
				var tl []string
				for t := range tags {
					tl = append(tl, t)
				}
				sortStrings(tl)
				for _, tag := range tl {
					cur := g.sc.lookup(st, tag)
					n := g.sc.fresh("sorted_"+tag, g.sc.tagSort[tag])
					g.sc.emit("(assert (forall ((r Ref)) (! (=> (not (= (rb r) (rb (sarr %s)))) (= (select %s r) (select %s r))) :pattern ((select %s r)))))", sv, n, cur, n)
					st.mem[tag] = n
					if g.isFreshRoot(mi.X) || isPhiOfFresh(mi.X) {
						g.sc.setStep(n, cur, fmt.Sprintf("(rb (sarr %s))", sv))
					} else {
						g.frameWrite(st, tag, fmt.Sprintf("(rb (sarr %s))", sv), cur, n)
					}
				}
				g.assumptions["sort.Slice: permutes the slice in place; the comparison closure does not write the heap"] = true
				return
			}
		}
	}
	// site-specific contract (evaluated in the caller's scope)
	if sct := g.siteContract(ins, key); sct != nil {
		g.applySiteContract(st, v, sct, sig, pos)
		return
	}
	ct := g.eng.db.Contracts[key]
	if ct == nil {
		if g.eng.isPureExtern(key) {
			g.bumpFrontier(st)
			rs := g.freshResults(st, "pure", sig)
			for i, r := range rs {
				g.assumeKnownRefAfterCall(st, sig.Results().At(i).Type(), r)
			}
			g.setResults(v, sig, rs)
			return
		}
		if !c.IsInvoke() && g.inlineCall(st, v, c.StaticCallee(), args) {
			return
		}
		g.unknownCall(st, v, key, sig)
		return
	}
	g.siteRequires(st, ins, key, pos, c, args)
	g.applyContract(st, v, ct, c.StaticCallee(), sig, args, nil, pos, argVals...)
}

// siteRequires: extra preconditions of one call site, evaluated in the caller's scope (old = caller entry).
func (g *Gen) siteRequires(st *State, ins ssa.Instruction, key string, pos token.Pos, c *ssa.CallCommon, args []string) {
	// the n-th call of key in the function under contract, in source order.  Inside a helper that is executed in place the
	// count continues from the call that entered the helper: an "extract helper" refactoring keeps the site numbers
	countBefore := func(fn *ssa.Function, pos token.Pos) int {
		c := 0
		for _, b := range fn.Blocks {
			for _, i2 := range b.Instrs {
				if ci, ok := i2.(ssa.CallInstruction); ok && calleeKey(ci.Common()) == key && i2.Pos() < pos {
					c++
				}
			}
		}
		return c
	}
	root := g
	n := 1
	at := ins.Pos()
	for root.inlineOf != nil {
		n += countBefore(root.fn, at)
		at = root.inlinePos
		root = root.inlineOf
	}
	n += countBefore(root.fn, at)
	prefix := "sitereq:" + root.fn.String() + ":" + key + "#"
	for _, k := range []string{fmt.Sprintf("%s%d", prefix, n), prefix + "*"} {
		ct := g.eng.db.Contracts[k]
		if ct == nil {
			continue
		}
		root.markSite(k)
		g.sitePos = ins.Pos()
		env := g.baseEnv(st)
		g.addLets(env)
		g.bindLocalsForSite(env, st)
		// inside a helper executed in place: the parameters of the functions around it, under their own names
		for x := g.inlineOf; x != nil; x = x.inlineOf {
			for _, p := range x.fn.Params {
				if _, clash := env.vars[p.Name()]; !clash {
					if t, ok := x.val[p]; ok {
						env.vars[p.Name()] = tv{t: t, ty: goT(p.Type())}
					}
				}
			}
		}
		// the callee's parameters are visible too (under their own names unless a caller name is in the way, and as argN)
		names, tys := calleeParams(c.StaticCallee(), c.Signature(), false)
		for i := range names {
			if i < len(args) {
				v := tv{t: args[i], ty: goT(tys[i])}
				env.vars[fmt.Sprintf("arg%d", i)] = v
				if _, clash := env.vars[names[i]]; !clash {
					env.vars[names[i]] = v
				}
			}
		}
		for _, c := range ct.Requires {
			t, err := env.formula(c.E)
			if err != nil {
				g.refusef("site-requires %s: %q: %v", k, c.Text, err)
				return
			}
			label := c.Label
			if label == "" {
				label = c.Text
			}
			o := g.addObl("pre", "at-site:"+shortName(key)+":"+label, st, t, pos)
			o.Text = c.Text
			if !strings.HasPrefix(key, "sort.") {
				// a determinism side condition of a sort is checked but NOT assumed afterwards: the functional clauses of the
				// function must hold whether or not it does
				g.sc.assume(st.pc, t)
			}
		}
	}
}

func (g *Gen) assumeKnownRefAfterCall(st *State, t types.Type, term string) {
	// results may be freshly allocated by the callee: bump the frontier first
	g.assumeKnownRef(st, t, term)
}

// inlineCall executes a contract-less helper of the repository in place when that is possible: the body is loop-free, has no
// defer / go / recover, and the nesting is shallow.  This keeps "extract a helper" refactorings from turning into havoc (and
// alarms), and lets the caller's contract see through small helpers.  Returns false if the callee cannot be executed in place.
func (g *Gen) inlineCall(st *State, v ssa.Value, callee *ssa.Function, args []string) bool {
	root := g
	depth := 0
	for root.inlineOf != nil {
		root = root.inlineOf
		depth++
	}
	if depth >= 2 || !g.canInline(callee) {
		return false
	}
	g2 := NewGen(g.eng, callee, root.ct)
	g2.sc = g.sc
	g2.inlineOf = g
	if ci, ok := v.(ssa.Instruction); ok && v != nil {
		g2.inlinePos = ci.Pos()
	} else if g.curIns != nil {
		g2.inlinePos = g.curIns.Pos()
	}
	g2.entry = root.entry
	g2.oldFrontier = root.oldFrontier
	g2.entryPrefix = root.entryPrefix
	for i, p := range callee.Params {
		if i < len(args) {
			g2.val[p] = args[i]
		}
	}
	g2.analyseAllocs()
	work := st.clone()
	ok := true
	func() {
		defer func() {
			if r := recover(); r != nil {
				ok = false
			}
		}()
		for _, b := range g2.rpo() {
			g2.curBlock = b
			g2.processBlock(b, work)
			if g2.refuse != "" {
				ok = false
				return
			}
		}
	}()
	if !ok {
		return false
	}
	// join the return points
	var edges []edge
	for _, rp := range g2.rets {
		edges = append(edges, edge{cond: rp.st.pc, st: rp.st})
	}
	m := g.sc.merge("inl_"+sanitize(callee.Name()), edges)
	if len(edges) > 0 {
		m.pc = st.pc // the helper returns on every path it does not panic on; panics are obligations of their own
		g.sc.emit("(assert (=> %s %s))", st.pc, func() string {
			var pcs []string
			for _, e := range edges {
				pcs = append(pcs, e.cond)
			}
			return "(or " + strings.Join(pcs, " ") + ")"
		}())
	}
	st.pc, st.epoch, st.mem, st.locals = m.pc, m.epoch, m.mem, m.locals
	// results
	sig := callee.Signature
	n := sig.Results().Len()
	rs := make([]string, n)
	for i := 0; i < n; i++ {
		if len(g2.rets) == 0 {
			rs[i] = g.sc.sorts.zero(sig.Results().At(i).Type())
			continue
		}
		term := g2.rets[len(g2.rets)-1].results[i]
		for k := len(g2.rets) - 2; k >= 0; k-- {
			term = fmt.Sprintf("(ite %s %s %s)", g2.rets[k].st.pc, g2.rets[k].results[i], term)
		}
		rs[i] = g.sc.define("inl_"+sanitize(callee.Name())+"_r", g.sc.sorts.sortOf(sig.Results().At(i).Type()), term)
	}
	if v != nil {
		g.setResults(v, sig, rs)
	}
	for a := range g2.assumptions {
		root.assumptions[a] = true
	}
	for u := range g2.uncontracted {
		root.uncontracted[u] = true
	}
	root.notes = append(root.notes, "helper without a contract executed in place: "+callee.String())
	root.pathPoints = append(root.pathPoints, g2.pathPoints...)
	return true
}

// canInline: a helper of the repository without a contract that can be executed in place (loop-free, no defer/go/closures).
func (g *Gen) canInline(callee *ssa.Function) bool {
	if callee == nil || len(callee.Blocks) == 0 || callee.Pkg == nil || !strings.HasPrefix(callee.Pkg.Pkg.Path(), repoMod) {
		return false
	}
	if g.eng.db.Contracts[callee.String()] != nil {
		return false
	}
	if len(callee.FreeVars) > 0 || callee.Recover != nil || len(callee.Blocks) > 40 {
		return false
	}
	for x := g; x != nil; x = x.inlineOf {
		if x.fn == callee {
			return false // recursion
		}
	}
	for _, b := range callee.Blocks {
		for _, ins := range b.Instrs {
			switch ins.(type) {
			case *ssa.Defer, *ssa.Go, *ssa.Select, *ssa.Send, *ssa.MakeChan, *ssa.RunDefers, *ssa.MakeClosure, *ssa.Range, *ssa.Next:
				return false
			}
		}
		for _, s := range b.Succs {
			if s.Dominates(b) {
				return false // a loop: needs an invariant, hence a contract
			}
		}
	}
	return true
}

// inlineModTags: heap tags an in-place helper may write (for the havoc at the head of a loop that calls it).
func (g *Gen) inlineModTags(callee *ssa.Function, depth int) (map[string]bool, bool) {
	tags := map[string]bool{}
	g2 := NewGen(g.eng, callee, nil)
	g2.sc = g.sc
	g2.inlineOf = g
	g2.analyseAllocs()
	all := false
	for _, b := range callee.Blocks {
		for _, ins := range b.Instrs {
			switch x := ins.(type) {
			case *ssa.Store:
				if p := g2.localPathOf(x.Addr); p != nil {
					continue
				}
				g2.collectStoreTags(x.Addr, x.Val.Type(), tags)
			case *ssa.MapUpdate:
				d, v, l := g.mapTags(x.Map.Type().Underlying().(*types.Map))
				tags[d], tags[v], tags[l] = true, true, true
			case ssa.CallInstruction:
				if depth >= 2 {
					return tags, true
				}
				ts, a := g2.calleeModTags(x)
				if a {
					all = true
				}
				for t := range ts {
					tags[t] = true
				}
			}
		}
	}
	return tags, all
}

func (g *Gen) unknownCall(st *State, v ssa.Value, key string, sig *types.Signature) {
	g.uncontracted[key] = true
	g.havocAll(st)
	rs := g.freshResults(st, "unk", sig)
	for i, r := range rs {
		g.assumeKnownRef(st, sig.Results().At(i).Type(), r)
	}
	g.setResults(v, sig, rs)
}

// paramNames of a callee: receiver first.
func calleeParams(fn *ssa.Function, sig *types.Signature, invoke bool) (names []string, tys []types.Type) {
	if fn != nil && len(fn.Params) > 0 {
		for _, p := range fn.Params {
			names = append(names, p.Name())
			tys = append(tys, p.Type())
		}
		return
	}
	if sig.Recv() != nil {
		n := sig.Recv().Name()
		if n == "" {
			n = "recv"
		}
		names = append(names, n)
		tys = append(tys, sig.Recv().Type())
	}
	for i := 0; i < sig.Params().Len(); i++ {
		n := sig.Params().At(i).Name()
		if n == "" {
			n = fmt.Sprintf("arg%d", i)
		}
		names = append(names, n)
		tys = append(tys, sig.Params().At(i).Type())
	}
	return
}

func (g *Gen) calleeEnv(st *State, old *State, ct *Contract, fn *ssa.Function, sig *types.Signature, args []string, bindings []ssa.Value, argVals ...ssa.Value) *Env {
	e := &Env{g: g, sc: g.sc, eng: g.eng, st: st, old: old, vars: map[string]tv{}}
	e.pkg = g.eng.typesPkg(ct.Pkg)
	if e.pkg == nil && fn != nil && fn.Pkg != nil {
		e.pkg = fn.Pkg.Pkg
	}
	if e.pkg == nil && fn != nil && fn.Parent() != nil && fn.Parent().Pkg != nil {
		e.pkg = fn.Parent().Pkg.Pkg
	}
	names, tys := calleeParams(fn, sig, false)
	for i := range names {
		if i < len(args) {
			v := tv{t: args[i], ty: goT(tys[i])}
			if i < len(argVals) {
				if fa, ok := argVals[i].(*ssa.FieldAddr); ok {
					if pt, ok := tys[i].Underlying().(*types.Pointer); ok {
						if _, isStruct := pt.Elem().Underlying().(*types.Struct); !isStruct {
							v.dtag = g.leafTagFor(fa, pt.Elem())
						}
					}
				}
			}
			e.vars[names[i]] = v
			e.vars[fmt.Sprintf("arg%d", i)] = v
		}
	}
	if fn != nil {
		for i, fv := range fn.FreeVars {
			if i < len(bindings) {
				et := fv.Type().Underlying().(*types.Pointer).Elem()
				b := bindings[i]
				if p := g.localPathOf(b); p != nil {
					e.vars[fv.Name()] = tv{t: g.localGet(st, p), ty: goT(et)}
				} else {
					ref := g.term(b)
					e.vars[fv.Name()] = tv{t: e.load(ref, et, ""), ty: goT(et), ref: ref}
				}
			}
		}
	}
	for _, l := range ct.Lets {
		x, err := ParseExpr(l.Type)
		if err != nil {
			continue
		}
		o := *e
		o.st = old
		if v, err := o.eval(x); err == nil {
			e.vars[l.Name] = v
		}
	}
	return e
}

func (g *Gen) applyContract(st *State, v ssa.Value, ct *Contract, fn *ssa.Function, sig *types.Signature, args []string, bindings []ssa.Value, pos token.Pos, argVals ...ssa.Value) {
	short := ct.Key
	if i := strings.LastIndex(short, "/"); i >= 0 {
		short = short[i+1:]
	}
	g.eng.usedContracts[ct.Key] = true
	pre := g.calleeEnv(st, st, ct, fn, sig, args, bindings, argVals...)
	for _, c := range ct.Requires {
		t, err := pre.formula(c.E)
		if err != nil {
			g.refusef("call %s: requires %q: %v", short, c.Text, err)
			return
		}
		label := c.Label
		if label == "" {
			label = c.Text
		}
		o := g.addObl("pre", fmt.Sprintf("%s:%s", short, label), st, t, pos)
		o.Text = c.Text
		g.sc.assume(st.pc, t)
	}
	// non-nil pointer arguments (callee assumes them)
	names, tys := calleeParams(fn, sig, false)
	for i := range names {
		if i >= len(args) {
			break
		}
		if _, isPtr := tys[i].Underlying().(*types.Pointer); isPtr && !ct.Nullable[names[i]] && !ct.Extern && !ct.Trusted {
			g.safety("nonnil-arg", st, fmt.Sprintf("(not (= %s null))", args[i]), pos)
		}
	}
	oldSt := st.clone()
	// havoc
	if ct.ModAll {
		g.havocAll(st)
	} else {
		if ct.ModHeap {
			g.havocHeap(st)
		}
		// callee may allocate (also a "pure" one: pure = no effect on pre-existing state)
		frBefore := g.frontier(st)
		g.bumpFrontier(st)
		g.refreshFreshRegion(st, sig, frBefore)
		if !ct.Pure {
			for _, loc := range ct.Modifies {
				if err := g.havocLocation(st, pre, loc); err != nil {
					g.refusef("call %s: modifies %q: %v", short, loc, err)
					return
				}
			}
		}
	}
	rs := g.freshResults(st, sanitize(short), sig)
	for i, r := range rs {
		g.assumeKnownRef(st, sig.Results().At(i).Type(), r)
	}
	g.setResults(v, sig, rs)
	post := g.calleeEnv(st, oldSt, ct, fn, sig, args, bindings, argVals...)
	bindResults(post, sig, rs)
	for _, c := range ct.Ensures {
		t, err := post.formula(c.E)
		if err != nil {
			g.refusef("call %s: ensures %q: %v", short, c.Text, err)
			return
		}
		g.sc.assume(st.pc, t)
	}
	// closures writing captured non-escaping... (captured variables always escape)
}

// havocLocation havocs one location named in a modifies clause, evaluated in the pre-state env.
func (g *Gen) havocLocation(st *State, env *Env, loc string) error {
	loc = strings.TrimSpace(loc)
	if strings.HasPrefix(loc, "ghost ") {
		loc = strings.TrimSpace(strings.TrimPrefix(loc, "ghost "))
	}
	if gv, ok := g.eng.db.GhostVars[loc]; ok {
		ty, err := env.withPkg(gv.Pkg).resolveType(gv.Type)
		if err != nil {
			return err
		}
		tag := "G!" + loc
		g.sc.regTag(tag, env.sortOfS(ty))
		g.havocTag(st, tag)
		return nil
	}
	if loc == "fresh-objects" {
		// the callee writes (through its arguments) only objects the CALLER allocated after its own entry: every heap tag is
		// havocked on objects at or above the caller's entry frontier and kept on the older ones.  Used for decoders that fill
		// a caller-local value passed behind an interface; the contract is an assumption about the callee.
		var tl []string
		for t, srt := range g.sc.tagSort {
			if strings.HasPrefix(srt, "(Array Ref ") && !strings.HasPrefix(t, "G!") && !strings.HasPrefix(t, "V!") && !strings.Contains(t, ":") {
				tl = append(tl, t)
			}
		}
		sortStrings(tl)
		for _, t := range tl {
			cur := g.sc.lookup(st, t)
			g.havocTag(st, t)
			nw := st.mem[t]
			g.sc.emit("(assert (forall ((r Ref)) (! (=> (< (rb r) %s) (= (select %s r) (select %s r))) :pattern ((select %s r)))))", g.oldFrontier, nw, cur, nw)
			g.sc.setStep(nw, cur, g.oldFrontier)
		}
		return nil
	}
	x, err := ParseExpr(loc)
	if err != nil {
		return err
	}
	// contents(m): map contents; elems(s): slice elements; *p / p.f : cell
	if c, ok := x.(*ECall); ok && (c.Fn == "contents" || c.Fn == "elems") {
		v, err := env.eval(c.Args[0])
		if err != nil {
			return err
		}
		if v.ty.Kind != "go" {
			return fmt.Errorf("contents of non-Go value")
		}
		switch u := v.ty.Go.Underlying().(type) {
		case *types.Map:
			d, vt, l := g.mapTags(u)
			for _, tag := range []string{d, vt, l} {
				cur := g.sc.lookup(st, tag)
				elemSort := strings.TrimSuffix(strings.TrimPrefix(g.sc.tagSort[tag], "(Array Ref "), ")")
				nv := g.sc.fresh("hvm", elemSort)
				st.mem[tag] = g.sc.define("m_"+tag, g.sc.tagSort[tag], fmt.Sprintf("(store %s %s %s)", cur, v.t, nv))
				g.frameWrite(st, tag, fmt.Sprintf("(rb %s)", v.t), cur, st.mem[tag])
				if tag == l {
					g.sc.emit("(assert (>= %s 0))", nv)
				}
			}
			return nil
		case *types.Slice:
			tags := map[string]bool{}
			g.collectElemTags(u.Elem(), tags)
			for tag := range tags {
				cur := g.sc.lookup(st, tag)
				n := g.sc.fresh("hve_"+tag, g.sc.tagSort[tag])
				g.sc.emit("(assert (forall ((r Ref)) (! (=> (not (= (rb r) (rb (sarr %s)))) (= (select %s r) (select %s r))) :pattern ((select %s r)))))", v.t, n, cur, n)
				g.sc.emit("(assert (=> (= (slen %s) 0) (= %s %s)))", v.t, n, cur)
				st.mem[tag] = n
				g.frameWriteX(st, tag, fmt.Sprintf("(rb (sarr %s))", v.t), cur, n, fmt.Sprintf("(= (slen %s) 0)", v.t))
			}
			return nil
		case *types.Pointer:
			tags := map[string]bool{}
			g.collectElemTags(u.Elem(), tags)
			for tag := range tags {
				cur := g.sc.lookup(st, tag)
				n := g.sc.fresh("hvp_"+tag, g.sc.tagSort[tag])
				g.sc.emit("(assert (forall ((r Ref)) (! (=> (not (= (rb r) (rb %s))) (= (select %s r) (select %s r))) :pattern ((select %s r)))))", v.t, n, cur, n)
				st.mem[tag] = n
				g.frameWrite(st, tag, fmt.Sprintf("(rb %s)", v.t), cur, n)
			}
			return nil
		}
		return fmt.Errorf("contents of %s", v.ty.Go)
	}
	// ghost field location  x.F
	if s, ok := x.(*ESel); ok {
		bv, err := env.eval(s.X)
		if err == nil && bv.ty.Kind == "go" {
			base, isPtr := derefType(bv.ty.Go)
			if gf := g.eng.ghostField(base, s.F); gf != nil && isPtr {
				ty, err := env.resolveType(gf.Type)
				if err != nil {
					return err
				}
				tag := "GF!" + sanitize(gf.Owner) + "!" + gf.Name
				g.sc.regTag(tag, fmt.Sprintf("(Array Ref %s)", env.sortOfS(ty)))
				cur := g.sc.lookup(st, tag)
				nv := g.sc.fresh("hvg", env.sortOfS(ty))
				st.mem[tag] = g.sc.define("m_"+tag, g.sc.tagSort[tag], fmt.Sprintf("(store %s %s %s)", cur, bv.t, nv))
				return nil
			}
		}
	}
	v, err := env.eval(x)
	if err != nil {
		return err
	}
	if v.ref == "" || v.ty.Kind != "go" {
		return fmt.Errorf("not an addressable location")
	}
	// havoc the cell(s) at v.ref (the new value may refer to objects allocated by the callee: older than the bumped frontier)
	nv := g.freshOf("hvc", v.ty.Go)
	g.assumeKnownRef(st, v.ty.Go, nv)
	tag := ""
	if s, ok := x.(*ESel); ok {
		if bv, err := env.eval(s.X); err == nil && bv.ty != nil && bv.ty.Kind == "go" && bv.ty.Go != nil { // not pkg.Var
			base, _ := derefType(bv.ty.Go)
			if stt, ok := base.Underlying().(*types.Struct); ok {
				for i := 0; i < stt.NumFields(); i++ {
					if stt.Field(i).Name() == s.F {
						tag = g.fieldTag(base, i)
					}
				}
			}
		}
	}
	g.storeAt(st, v.ref, v.ty.Go, tag, nv)
	return nil
}

// calleeModTags: which tags may a call modify (for loop havoc).
func (g *Gen) calleeModTags(ci ssa.CallInstruction) (map[string]bool, bool) {
	c := ci.Common()
	tags := map[string]bool{}
	if b, ok := c.Value.(*ssa.Builtin); ok {
		switch b.Name() {
		case "append":
			if sl, ok := c.Args[0].Type().Underlying().(*types.Slice); ok {
				g.collectElemTags(sl.Elem(), tags)
			}
		case "copy":
			if sl, ok := c.Args[0].Type().Underlying().(*types.Slice); ok {
				g.collectElemTags(sl.Elem(), tags)
			}
		case "delete":
			mt := c.Args[0].Type().Underlying().(*types.Map)
			d, v, l := g.mapTags(mt)
			tags[d], tags[v], tags[l] = true, true, true
		}
		return tags, false
	}
	key := calleeKey(c)
	if mc, ok := c.Value.(*ssa.MakeClosure); ok {
		key = mc.Fn.(*ssa.Function).String()
	}
	if _, isDefer := ci.(*ssa.Defer); isDefer {
		return tags, false // runs at function exit, not in the loop
	}
	ct := g.eng.db.Contracts[key]
	if ct == nil {
		if key != "" && g.eng.isPureExtern(key) {
			return tags, false
		}
		if !c.IsInvoke() && g.canInline(c.StaticCallee()) {
			depth := 0
			for x := g; x.inlineOf != nil; x = x.inlineOf {
				depth++
			}
			return g.inlineModTags(c.StaticCallee(), depth)
		}
		return tags, true
	}
	if ct.ModAll || ct.ModHeap {
		return tags, true
	}
	if ct.Pure {
		return tags, false
	}
	for _, loc := range ct.Modifies {
		loc = strings.TrimSpace(strings.TrimPrefix(strings.TrimSpace(loc), "ghost "))
		if _, ok := g.eng.db.GhostVars[loc]; ok {
			tags["G!"+loc] = true
			continue
		}
		// conservative: resolve the static type of the location to tags
		ts, all := g.eng.locationTags(g, ct, c, loc)
		if all {
			return tags, true
		}
		for _, t := range ts {
			tags[t] = true
		}
	}
	return tags, false
}

func (g *Gen) builtin(st *State, v ssa.Value, b *ssa.Builtin, c *ssa.CallCommon, pos token.Pos) {
	switch b.Name() {
	case "len", "cap":
		a := c.Args[0]
		at := g.term(a)
		switch u := a.Type().Underlying().(type) {
		case *types.Slice:
			if b.Name() == "len" {
				g.setVal(v, fmt.Sprintf("(slen %s)", at))
			} else {
				g.setVal(v, fmt.Sprintf("(scap %s)", at))
			}
		case *types.Map:
			g.setVal(v, g.mapLenOf(st, u, at))
		case *types.Basic:
			g.setVal(v, fmt.Sprintf("(strlen %s)", at))
		case *types.Array:
			g.setVal(v, fmt.Sprint(u.Len()))
		case *types.Pointer:
			g.setVal(v, fmt.Sprint(u.Elem().Underlying().(*types.Array).Len()))
		default:
			g.val[v] = g.freshOf("len", v.Type())
			g.sc.emit("(assert (>= %s 0))", g.val[v])
		}
	case "append":
		g.appendOp(st, v, c, pos)
	case "copy":
		g.copyOp(st, v, c)
	case "delete":
		mt := c.Args[0].Type().Underlying().(*types.Map)
		m, k := g.term(c.Args[0]), g.term(c.Args[1])
		d, _, l := g.mapTags(mt)
		dom := g.sc.lookup(st, d)
		lens := g.sc.lookup(st, l)
		had := fmt.Sprintf("(select (select %s %s) %s)", dom, m, k)
		st.mem[l] = g.sc.define("m_len", g.sc.tagSort[l], fmt.Sprintf("(store %s %s (ite %s (- (select %s %s) 1) (select %s %s)))", lens, m, had, lens, m, lens, m))
		st.mem[d] = g.sc.define("m_dom", g.sc.tagSort[d], fmt.Sprintf("(store %s %s (store (select %s %s) %s false))", dom, m, dom, m, k))
	case "print", "println", "recover":
		if v != nil && v.Type() != nil {
			if _, isT := v.Type().(*types.Tuple); !isT {
				g.val[v] = g.freshOf("bi", v.Type())
			}
		}
	case "min", "max":
		a, bb := g.term(c.Args[0]), g.term(c.Args[1])
		op := "<="
		if b.Name() == "max" {
			op = ">="
		}
		g.setVal(v, fmt.Sprintf("(ite (%s %s %s) %s %s)", op, a, bb, a, bb))
	default:
		g.refusef("builtin %s", b.Name())
	}
}

// appendOp: reallocation with copy (see DESIGN §2.4): result has a fresh backing array.
func (g *Gen) appendOp(st *State, v ssa.Value, c *ssa.CallCommon, pos token.Pos) {
	s := g.term(c.Args[0])
	sl, ok := c.Args[0].Type().Underlying().(*types.Slice)
	if !ok {
		g.refusef("append to non-slice")
		return
	}
	more := g.term(c.Args[1])
	if _, isStr := c.Args[1].Type().Underlying().(*types.Basic); isStr {
		// append([]byte, string...)
		n := g.freshOf("appstr", v.Type())
		g.sc.emit("(assert (and (= (slen %s) (+ (slen %s) (strlen %s))) (>= (rb (sarr %s)) %s)))", n, s, more, n, g.frontier(st))
		g.val[v] = n
		tags := map[string]bool{}
		g.collectElemTags(sl.Elem(), tags)
		return
	}
	arr := g.allocRef(st, "append")
	newLen := fmt.Sprintf("(+ (slen %s) (slen %s))", s, more)
	capv := g.sc.fresh("appcap", "Int")
	g.sc.emit("(assert (>= %s %s))", capv, newLen)
	g.setVal(v, fmt.Sprintf("(mkslice %s 0 %s %s)", arr, newLen, capv))
	// anchor for quantifier instantiation: the first appended position
	g.sc.emit("(assert (anchor (sidx %s (slen %s))))", g.val[v], s)
	// copy cells for every leaf tag of the element type
	var leaf func(t types.Type, path func(string) string, tag string)
	leaf = func(t types.Type, path func(string) string, tag string) {
		switch u := t.Underlying().(type) {
		case *types.Struct:
			for i := 0; i < u.NumFields(); i++ {
				ii := i
				leaf(u.Field(i).Type(), func(b string) string { return fmt.Sprintf("(fld %s %d)", path(b), ii) }, g.fieldTag(t, i))
			}
			return
		case *types.Array:
			if !isByteLike(u.Elem()) {
				return
			}
		}
		if tag == "" {
			tag = g.cellTag(t)
		}
		cur := g.sc.lookup(st, tag)
		n := g.sc.fresh("ma_"+tag, g.sc.tagSort[tag])
		g.sc.emit("(assert (forall ((r Ref)) (! (=> (not (= (rb r) (rb %s))) (= (select %s r) (select %s r))) :pattern ((select %s r)))))", arr, n, cur, n)
		dst := path(fmt.Sprintf("(sidx %s i)", g.val[v])) // = (idx arr i); written with sidx so that instances match reads of the result
		src1 := path(fmt.Sprintf("(sidx %s i)", s))
		src2 := path(fmt.Sprintf("(sidx %s (- i (slen %s)))", more, s))
		g.sc.emit("(assert (forall ((i Int)) (! (=> (and (<= 0 i) (< i %s)) (= (select %s %s) (ite (< i (slen %s)) (select %s %s) (select %s %s)))) :pattern ((select %s %s)) :pattern ((select %s %s)))))",
			newLen, n, dst, s, cur, src1, cur, src2, n, dst, cur, src1)
		st.mem[tag] = n
		g.sc.setStep(n, cur, fmt.Sprintf("(rb %s)", arr))
	}
	leaf(sl.Elem(), func(b string) string { return b }, "")
}

func (g *Gen) copyOp(st *State, v ssa.Value, c *ssa.CallCommon) {
	dst := g.term(c.Args[0])
	sl, ok := c.Args[0].Type().Underlying().(*types.Slice)
	if !ok {
		g.refusef("copy to non-slice")
		return
	}
	// number of elements copied
	n := g.sc.fresh("ncopy", "Int")
	srcLen := ""
	if _, isStr := c.Args[1].Type().Underlying().(*types.Basic); isStr {
		srcLen = fmt.Sprintf("(strlen %s)", g.term(c.Args[1]))
	} else {
		srcLen = fmt.Sprintf("(slen %s)", g.term(c.Args[1]))
	}
	g.sc.emit("(assert (= %s (ite (<= (slen %s) %s) (slen %s) %s)))", n, dst, srcLen, dst, srcLen)
	if v != nil {
		g.val[v] = n
	}
	// whole [N]byte copy: both slices cover complete byte arrays of the same base
	if isByteLike(sl.Elem()) {
		if ds, ok := c.Args[0].(*ssa.Slice); ok {
			if pt, ok := ds.X.Type().Underlying().(*types.Pointer); ok && ds.Low == nil && ds.High == nil {
				if at, ok := pt.Elem().Underlying().(*types.Array); ok {
					if ss, ok := c.Args[1].(*ssa.Slice); ok && ss.Low == nil && ss.High == nil {
						if spt, ok := ss.X.Type().Underlying().(*types.Pointer); ok {
							if sat, ok := spt.Elem().Underlying().(*types.Array); ok && sat.Len() == at.Len() {
								// *dst = *src
								srcv := ""
								if p := g.localPathOf(ss.X); p != nil {
									srcv = g.localGet(st, p)
								} else {
									srcv = g.loadAt(st, g.term(ss.X), pt.Elem(), g.leafTagFor(ss.X, pt.Elem()))
								}
								if p := g.localPathOf(ds.X); p != nil {
									g.localSet(st, p, srcv)
								} else {
									g.storeAt(st, g.term(ds.X), pt.Elem(), g.leafTagFor(ds.X, pt.Elem()), srcv)
								}
								return
							}
						}
					}
				}
			}
		}
	}
	// general case: cells of dst's backing array in [off, off+n) change, everything else is kept;
	// copied cells equal the *old* source cells (memmove semantics).
	var leaf func(t types.Type, path func(string) string, tag string)
	leaf = func(t types.Type, path func(string) string, tag string) {
		switch u := t.Underlying().(type) {
		case *types.Struct:
			for i := 0; i < u.NumFields(); i++ {
				ii := i
				leaf(u.Field(i).Type(), func(b string) string { return fmt.Sprintf("(fld %s %d)", path(b), ii) }, g.fieldTag(t, i))
			}
			return
		}
		if tag == "" {
			tag = g.cellTag(t)
		}
		cur := g.sc.lookup(st, tag)
		nm := g.sc.fresh("mc_"+tag, g.sc.tagSort[tag])
		if _, isStr := c.Args[1].Type().Underlying().(*types.Basic); isStr {
			g.sc.emit("(assert (forall ((r Ref)) (! (=> (not (= (rb r) (rb (sarr %s)))) (= (select %s r) (select %s r))) :pattern ((select %s r)))))", dst, nm, cur, nm)
			st.mem[tag] = nm
			return
		}
		src := g.term(c.Args[1])
		d := path(fmt.Sprintf("(sidx %s i)", dst))
		s := path(fmt.Sprintf("(sidx %s i)", src))
		g.sc.emit("(assert (forall ((i Int)) (! (=> (and (<= 0 i) (< i %s)) (= (select %s %s) (select %s %s))) :pattern ((select %s %s)))))", n, nm, d, cur, s, nm, d)
		// frame: cells outside the destination window are unchanged
		g.sc.emit("(assert (forall ((r Ref)) (! (=> (not (= (rb r) (rb (sarr %s)))) (= (select %s r) (select %s r))) :pattern ((select %s r)))))", dst, nm, cur, nm)
		g.sc.emit("(assert (forall ((i Int)) (! (=> (or (< i 0) (>= i %s)) (= (select %s %s) (select %s %s))) :pattern ((select %s %s)))))", n, nm, d, cur, d, nm, d)
		st.mem[tag] = nm
	}
	leaf(sl.Elem(), func(b string) string { return b }, "")
}

// frameObligation: heap cells of pre-existing objects not covered by `modifies` are unchanged.
func (g *Gen) frameObligation() {
	if g.ct == nil {
		return
	}
	var tags []string
	for tag := range g.sc.tagSort {
		if strings.HasPrefix(tag, "K:") || strings.HasPrefix(tag, "VR:") || strings.HasPrefix(tag, "V!") || tag == "!frontier" {
			continue
		}
		tags = append(tags, tag)
	}
	sortStrings(tags)
	for _, tag := range tags {
		var parts []string
		was := g.sc.lookup(g.entry, tag)
		srt := g.sc.tagSort[tag]
		for _, rp := range g.rets {
			now := g.sc.lookup(rp.st, tag)
			if now == was {
				continue
			}
			if !strings.HasPrefix(tag, "G!") && g.ct.ModHeap {
				continue
			}
			if !strings.HasPrefix(tag, "G!") && g.sc.oldBase(now) == g.sc.oldBase(was) {
				continue // every step from entry to here only wrote objects allocated after entry (tracked provenance)
			}
			if strings.HasPrefix(tag, "G!") {
				if g.modifiesGhost(tag[2:]) {
					continue
				}
				parts = append(parts, fmt.Sprintf("(=> %s (= %s %s))", rp.st.pc, now, was))
				continue
			}
			if !strings.HasPrefix(srt, "(Array Ref ") {
				continue
			}
			excl, err := g.modifiedRefs(tag)
			if err != nil {
				g.refusef("frame: %v", err)
				return
			}
			cond := fmt.Sprintf("(< (rb r) %s)", g.oldFrontier)
			for _, x := range excl {
				cond = fmt.Sprintf("(and %s %s)", cond, x)
			}
			parts = append(parts, fmt.Sprintf("(=> %s (forall ((r Ref)) (=> %s (= (select %s r) (select %s r)))))", rp.st.pc, cond, now, was))
		}
		if len(parts) == 0 {
			continue
		}
		g.addObl("frame", tag, &State{pc: "true"}, "(and "+strings.Join(parts, " ")+")", token.NoPos)
	}
}

func (g *Gen) modifiesGhost(name string) bool {
	for _, m := range g.ct.Modifies {
		m = strings.TrimSpace(strings.TrimPrefix(strings.TrimSpace(m), "ghost "))
		if m == name {
			return true
		}
	}
	return false
}

// modifiedRefs returns, for a heap tag, conditions "r is not one of the declared modified refs".
func (g *Gen) modifiedRefs(tag string) ([]string, error) {
	var out []string
	env := g.entryEnvRO()
	for _, loc := range g.ct.Modifies {
		loc = strings.TrimSpace(loc)
		if strings.HasPrefix(loc, "ghost ") {
			continue
		}
		if _, ok := g.eng.db.GhostVars[loc]; ok {
			continue
		}
		x, err := ParseExpr(loc)
		if err != nil {
			return nil, err
		}
		if c, ok := x.(*ECall); ok && (c.Fn == "contents" || c.Fn == "elems") {
			v, err := env.eval(c.Args[0])
			if err != nil {
				return nil, err
			}
			switch v.ty.Go.Underlying().(type) {
			case *types.Map:
				if strings.HasPrefix(tag, "MD!") || strings.HasPrefix(tag, "MV!") || strings.HasPrefix(tag, "ML!") {
					out = append(out, fmt.Sprintf("(not (= r %s))", v.t))
				}
			case *types.Slice:
				if g.tagHoldsCellsOf(tag, v.ty.Go.Underlying().(*types.Slice).Elem()) {
					out = append(out, fmt.Sprintf("(not (= (rb r) (rb (sarr %s))))", v.t))
				}
			case *types.Pointer:
				if g.tagHoldsCellsOf(tag, v.ty.Go.Underlying().(*types.Pointer).Elem()) {
					out = append(out, fmt.Sprintf("(not (= (rb r) (rb %s)))", v.t))
				}
			}
			continue
		}
		if s, ok := x.(*ESel); ok {
			bv, err := env.eval(s.X)
			if err == nil && bv.ty.Kind == "go" {
				base, isPtr := derefType(bv.ty.Go)
				if gf := g.eng.ghostField(base, s.F); gf != nil && isPtr {
					if tag == "GF!"+sanitize(gf.Owner)+"!"+gf.Name {
						out = append(out, fmt.Sprintf("(not (= r %s))", bv.t))
					}
					continue
				}
			}
		}
		v, err := env.eval(x)
		if err != nil {
			return nil, err
		}
		if v.ref != "" {
			// only heap tags that can hold cells of this location are affected
			locTags := map[string]bool{}
			if sel, ok := x.(*ESel); ok && v.ty.Kind == "go" {
				if bv, err := env.eval(sel.X); err == nil && bv.ty.Kind == "go" {
					base, _ := derefType(bv.ty.Go)
					if stt, ok := base.Underlying().(*types.Struct); ok {
						for i := 0; i < stt.NumFields(); i++ {
							if stt.Field(i).Name() == sel.F {
								if _, isS := stt.Field(i).Type().Underlying().(*types.Struct); isS {
									g.collectElemTags(stt.Field(i).Type(), locTags)
								} else {
									locTags[g.fieldTag(base, i)] = true
								}
							}
						}
					}
				}
			}
			if len(locTags) == 0 && v.ty.Kind == "go" {
				g.collectElemTags(v.ty.Go, locTags)
			}
			if !locTags[tag] {
				continue
			}
			// any cell at or below v.ref
			out = append(out, fmt.Sprintf("(not (= r %s))", v.ref))
			if _, isStruct := v.ty.Go.Underlying().(*types.Struct); isStruct {
				st := v.ty.Go.Underlying().(*types.Struct)
				for i := 0; i < st.NumFields(); i++ {
					out = append(out, fmt.Sprintf("(not (= r (fld %s %d)))", v.ref, i))
				}
			}
		}
	}
	return out, nil
}

// tagHoldsCellsOf: can the heap tag hold a cell of an object of type t (its fields, nested structs, array elements, or
// a ghost field owned by t)?
func (g *Gen) tagHoldsCellsOf(tag string, t types.Type) bool {
	if strings.HasPrefix(tag, "GF!") {
		return strings.HasPrefix(tag, "GF!"+sanitize(types.TypeString(t, nil))+"!")
	}
	tags := map[string]bool{}
	g.collectElemTags(t, tags)
	tags[g.cellTag(t)] = true
	return tags[tag]
}

func (g *Gen) entryEnvRO() *Env {
	e := g.baseEnv(g.entry)
	e.old = g.entry
	g.addLets(e)
	return e
}

func sortStrings(s []string) {
	for i := 1; i < len(s); i++ {
		for j := i; j > 0 && s[j] < s[j-1]; j-- {
			s[j], s[j-1] = s[j-1], s[j]
		}
	}
}

// siteContract finds "site:<caller>:<callee>#n" where n is the 1-based source-order index of this call
// among the calls to the same callee in the function.
func (g *Gen) siteContract(ins ssa.Instruction, key string) *Contract {
	prefix := "site:" + g.fn.String() + ":" + key + "#"
	has := false
	for k := range g.eng.db.Contracts {
		if strings.HasPrefix(k, prefix) {
			has = true
		}
	}
	if !has {
		return nil
	}
	var poss []token.Pos
	for _, b := range g.fn.Blocks {
		for _, i2 := range b.Instrs {
			if ci, ok := i2.(ssa.CallInstruction); ok && calleeKey(ci.Common()) == key {
				poss = append(poss, i2.Pos())
			}
		}
	}
	n := 1
	for _, p := range poss {
		if p < ins.Pos() {
			n++
		}
	}
	k := fmt.Sprintf("%s%d", prefix, n)
	if g.eng.db.Contracts[k] != nil {
		g.markSite(k)
	}
	return g.eng.db.Contracts[k]
}

func (g *Gen) applySiteContract(st *State, v ssa.Value, ct *Contract, sig *types.Signature, pos token.Pos) {
	g.eng.usedContracts[ct.Key] = true
	g.sitePos = pos
	pre := g.baseEnv(st)
	pre.old = st
	g.bindLocalsForSite(pre, st)
	for _, c := range ct.Requires {
		t, err := pre.formula(c.E)
		if err != nil {
			g.refusef("site %s: requires %q: %v", ct.Key, c.Text, err)
			return
		}
		label := c.Label
		if label == "" {
			label = c.Text
		}
		g.addObl("pre", "site:"+label, st, t, pos)
		g.sc.assume(st.pc, t)
	}
	oldSt := st.clone()
	if ct.ModAll {
		g.havocAll(st)
	} else if !ct.Pure {
		for _, loc := range ct.Modifies {
			if err := g.havocLocation(st, pre, loc); err != nil {
				g.refusef("site %s: modifies %q: %v", ct.Key, loc, err)
				return
			}
		}
	}
	g.bumpFrontier(st)
	rs := g.freshResults(st, "site", sig)
	for i, r := range rs {
		g.assumeKnownRef(st, sig.Results().At(i).Type(), r)
	}
	g.setResults(v, sig, rs)
	post := g.baseEnv(st)
	post.old = oldSt
	g.bindLocalsForSite(post, oldSt)
	// results of the call: result/err/resultN (shadowing the caller's own result names)
	rsig := sig.Results()
	for i := 0; i < rsig.Len() && i < len(rs); i++ {
		val := tv{t: rs[i], ty: goT(rsig.At(i).Type())}
		post.vars[fmt.Sprintf("result%d", i)] = val
		if rsig.Len() == 1 || i == 0 {
			post.vars["result"] = val
		}
		if i == rsig.Len()-1 && rsig.At(i).Type().String() == "error" {
			post.vars["err"] = val
			if rsig.Len() == 1 {
				post.vars["result"] = val
			}
		}
	}
	for _, c := range ct.Ensures {
		t, err := post.formula(c.E)
		if err != nil {
			g.refusef("site %s: ensures %q: %v", ct.Key, c.Text, err)
			return
		}
		g.sc.assume(st.pc, t)
	}
}

// bindLocalsForSite exposes the caller's named locals that have a unique SSA value (already computed).
func (g *Gen) bindLocalsForSite(e *Env, st *State) {
	e.ownLocals = true
	byName := map[string][]ssa.Value{}
	for _, b := range g.fn.Blocks {
		for _, ins := range b.Instrs {
			if d, ok := ins.(*ssa.DebugRef); ok && !d.IsAddr && d.Object() != nil {
				if _, isVar := d.Object().(*types.Var); isVar {
					dup := false
					for _, x := range byName[d.Object().Name()] {
						if x == d.X {
							dup = true
						}
					}
					if !dup {
						byName[d.Object().Name()] = append(byName[d.Object().Name()], d.X)
					}
				}
			}
		}
	}
	for name, vs := range byName {
		if _, has := e.vars[name]; has {
			continue
		}
		if len(vs) != 1 {
			// several SSA values carry the name: take the one of the last textual reference before the site, if that
			// reference dominates the site and no loop around the site re-binds the name
			if v := g.valueAtSite(name); v != nil {
				if t, ok := g.val[v]; ok {
					e.vars[name] = tv{t: t, ty: goT(v.Type())}
				}
			}
			continue
		}
		if t, ok := g.val[vs[0]]; ok {
			e.vars[name] = tv{t: t, ty: goT(vs[0].Type())}
		}
	}
}

func (g *Gen) valueAtSite(name string) ssa.Value {
	if g.sitePos == token.NoPos || g.curBlock == nil {
		return nil
	}
	// definitions/uses carrying the variable's value: DebugRefs of the name and lifted phis commented with it
	// the variable of that name whose scope is the innermost one around the site
	var obj0 types.Object
	for _, b := range g.fn.Blocks {
		for _, ins := range b.Instrs {
			if d, ok := ins.(*ssa.DebugRef); ok && !d.IsAddr && d.Object() != nil && d.Object().Name() == name {
				if v, isVar := d.Object().(*types.Var); isVar && v.Parent() != nil && v.Parent().Contains(g.sitePos) {
					if obj0 == nil || obj0.Parent().Contains(v.Parent().Pos()) && obj0.Parent() != v.Parent() {
						obj0 = v
					}
				}
			}
		}
	}
	if obj0 == nil {
		return nil
	}
	type occ struct {
		b   *ssa.BasicBlock
		idx int
		v   ssa.Value
	}
	var all []occ
	for _, b := range g.fn.Blocks {
		for i, ins := range b.Instrs {
			switch d := ins.(type) {
			case *ssa.DebugRef:
				if d.IsAddr || d.Object() == nil || d.Object().Name() != name {
					continue
				}
				if _, isVar := d.Object().(*types.Var); !isVar {
					continue
				}
				if d.Object() != obj0 {
					continue // another variable of the same name
				}
				all = append(all, occ{b, i, d.X})
			case *ssa.Phi:
				if d.Comment == name && obj0.Parent().Contains(d.Pos()) {
					all = append(all, occ{b, i, d})
				}
			}
		}
	}
	// position of the site inside its block
	siteIdx := len(g.curBlock.Instrs)
	for i, ins := range g.curBlock.Instrs {
		if ins.Pos() == g.sitePos {
			if _, isCall := ins.(ssa.CallInstruction); isCall {
				siteIdx = i
				break
			}
		}
	}
	// forward reaching-values analysis over the occurrences (every assignment to a named variable leaves a DebugRef in
	// debug mode; a lifted phi carries the variable's name): IN[b] is the common value of all predecessors' OUT, or "many"
	var many ssa.Value = (*ssa.Phi)(nil)
	lastIn := map[*ssa.BasicBlock]*occ{}
	for k := range all {
		o := &all[k]
		if cur := lastIn[o.b]; cur == nil || o.idx > cur.idx {
			lastIn[o.b] = o
		}
	}
	in := map[*ssa.BasicBlock]ssa.Value{}
	out := map[*ssa.BasicBlock]ssa.Value{}
	known := map[*ssa.BasicBlock]bool{}
	for changed := true; changed; {
		changed = false
		for _, b := range g.fn.Blocks {
			var v ssa.Value
			seen := false
			for _, p := range b.Preds {
				if !known[p] {
					continue
				}
				if !seen {
					v, seen = out[p], true
				} else if out[p] != v {
					v = many
				}
			}
			if len(b.Preds) == 0 {
				seen = true // entry: undefined (nil)
			}
			if !seen {
				continue
			}
			o := v
			if l := lastIn[b]; l != nil {
				o = l.v
			}
			if !known[b] || in[b] != v || out[b] != o {
				known[b], in[b], out[b] = true, v, o
				changed = true
			}
		}
	}
	var val ssa.Value = in[g.curBlock]
	best := -1
	for k := range all {
		o := &all[k]
		if o.b == g.curBlock && o.idx < siteIdx && o.idx > best {
			best, val = o.idx, o.v
		}
	}
	if val == nil || val == many {
		return nil
	}
	return val
}

func (g *Gen) inSomeLoop(b *ssa.BasicBlock) bool {
	for _, li := range g.loops {
		if li.blocks[b] {
			return true
		}
	}
	return false
}

func (g *Gen) bumpFrontier(st *State) {
	fr := g.frontier(st)
	nf := g.sc.fresh("frontier", "Int")
	g.sc.emit("(assert (>= %s %s))", nf, fr)
	st.mem["!frontier"] = nf
}

// reachableTags: heap tags of cells reachable from a value of type t (through pointers, slices, maps, fields).
func (g *Gen) reachableTags(t types.Type, depth int, seen map[string]bool, out map[string]bool) {
	if depth > 5 {
		return
	}
	key := t.String()
	switch u := t.Underlying().(type) {
	case *types.Pointer:
		if seen[key] {
			return
		}
		seen[key] = true
		g.collectElemTags(u.Elem(), out)
		g.reachableInside(u.Elem(), depth+1, seen, out)
	case *types.Slice:
		if seen[key] {
			return
		}
		seen[key] = true
		g.collectElemTags(u.Elem(), out)
		g.reachableInside(u.Elem(), depth+1, seen, out)
	case *types.Map:
		if seen[key] {
			return
		}
		seen[key] = true
		d, v, l := g.mapTags(u)
		out[d], out[v], out[l] = true, true, true
		g.reachableTags(u.Elem(), depth+1, seen, out)
		g.reachableTags(u.Key(), depth+1, seen, out)
	case *types.Struct:
		g.reachableInside(t, depth, seen, out)
	}
}

func (g *Gen) reachableInside(t types.Type, depth int, seen map[string]bool, out map[string]bool) {
	switch u := t.Underlying().(type) {
	case *types.Struct:
		for i := 0; i < u.NumFields(); i++ {
			g.reachableTags(u.Field(i).Type(), depth, seen, out)
		}
	case *types.Array:
		g.reachableTags(u.Elem(), depth, seen, out)
	default:
		g.reachableTags(t, depth, seen, out)
	}
}

// refreshFreshRegion: a callee may allocate objects and return them; the heap cells of objects allocated during the
// call (rb >= frontier before the call) are unconstrained afterwards (the callee's ensures then describes them).
func (g *Gen) refreshFreshRegion(st *State, sig *types.Signature, frBefore string) {
	tags := map[string]bool{}
	seen := map[string]bool{}
	for i := 0; i < sig.Results().Len(); i++ {
		g.reachableTags(sig.Results().At(i).Type(), 0, seen, tags)
	}
	var tl []string
	for t := range tags {
		tl = append(tl, t)
	}
	sortStrings(tl)
	for _, t := range tl {
		srt, ok := g.sc.tagSort[t]
		if !ok || !strings.HasPrefix(srt, "(Array Ref ") {
			continue
		}
		cur := g.sc.lookup(st, t)
		g.havocTag(st, t)
		nw := st.mem[t]
		g.sc.emit("(assert (forall ((r Ref)) (! (=> (< (rb r) %s) (= (select %s r) (select %s r))) :pattern ((select %s r)))))", frBefore, nw, cur, nw)
		g.sc.setStep(nw, cur, frBefore)
	}
}

// isPhiOfFresh: a loop-carried slice built only by append / nil (e.g. `var list []T; for ... { list = append(list, x) }`).
func isPhiOfFresh(v ssa.Value) bool {
	seen := map[ssa.Value]bool{}
	var ok func(v ssa.Value) bool
	ok = func(v ssa.Value) bool {
		if seen[v] {
			return true
		}
		seen[v] = true
		switch x := v.(type) {
		case *ssa.Phi:
			for _, e := range x.Edges {
				if !ok(e) {
					return false
				}
			}
			return true
		case *ssa.Const:
			return x.Value == nil
		case *ssa.Call:
			if b, isB := x.Call.Value.(*ssa.Builtin); isB && b.Name() == "append" {
				return ok(x.Call.Args[0]) // append writes in place when the capacity suffices: the base must be fresh too
			}
		case *ssa.MakeSlice:
			return true
		case *ssa.Slice:
			return ok(x.X)
		}
		return false
	}
	return ok(v)
}
