package main

// Syntactic side conditions of assumed contracts (kind "scan"): cheap checks over the SSA of /repo that back an assumption the
// deductive part relies on.  A scan that fails is reported like a failed obligation.

import (
	"fmt"
	"go/constant"
	"regexp"
	"sort"
	"strings"

	"golang.org/x/tools/go/ssa"
)

var sqlWrite = regexp.MustCompile(`(?i)^\s*(insert|update|delete|replace|create|drop|alter|vacuum|pragma|attach)\b`)

// scanPureLeavesReadOnly: a storage leaf whose contract says `pure` (no effect on pre-existing state, in particular none on the
// ledger tables) may only issue read statements: every SQL string constant reachable from its body through functions of the
// same package must not start with a writing statement.
func scanPureLeavesReadOnly(eng *Engine) []Result {
	var out []Result
	var keys []string
	for k, ct := range eng.db.Contracts {
		// only the leaves the functions of this property actually call
		if ct.Trusted && ct.Pure && !ct.Extern && !ct.Site && strings.Contains(k, repoMod+"/node/pegnet.") && eng.usedContracts[k] {
			keys = append(keys, k)
		}
	}
	sort.Strings(keys)
	for _, k := range keys {
		fn := eng.FindFunction(k)
		name := shortKey(k) + "/scan:pure_leaf_issues_no_writing_sql"
		if fn == nil {
			out = append(out, Result{Name: name, Kind: "scan", Fn: k, Status: "missing", Text: "leaf under a pure contract no longer exists"})
			continue
		}
		bad := ""
		seen := map[*ssa.Function]bool{}
		var walk func(f *ssa.Function)
		walk = func(f *ssa.Function) {
			if f == nil || seen[f] || len(f.Blocks) == 0 {
				return
			}
			seen[f] = true
			for _, b := range f.Blocks {
				for _, ins := range b.Instrs {
					for _, op := range ins.Operands(nil) {
						if c, ok := (*op).(*ssa.Const); ok && c.Value != nil && c.Value.Kind() == constant.String {
							if s := constant.StringVal(c.Value); sqlWrite.MatchString(s) {
								bad = f.Name() + ": " + firstLine(s)
							}
						}
						if g, ok := (*op).(*ssa.Global); ok && g.Pkg == fn.Pkg {
							// package-level query strings (const-like vars) are initialised in init: look at the initial value
							if v := eng.globalStringInit(g); v != "" && sqlWrite.MatchString(v) {
								bad = f.Name() + ": " + firstLine(v)
							}
						}
					}
					if call, ok := ins.(ssa.CallInstruction); ok {
						if cal := call.Common().StaticCallee(); cal != nil && cal.Pkg == fn.Pkg {
							// helpers of the same package that carry their own (non-pure) contract are effects we already model
							walk(cal)
						}
					}
				}
			}
			for _, an := range f.AnonFuncs {
				walk(an)
			}
		}
		walk(fn)
		if bad != "" {
			out = append(out, Result{Name: name, Kind: "scan", Fn: k, Status: "sat", Text: "writing SQL reachable from a leaf assumed read-only: " + bad})
		} else {
			out = append(out, Result{Name: name, Kind: "scan", Fn: k, Status: "ok", Solver: "ssa-scan"})
		}
	}
	return out
}

func firstLine(s string) string {
	s = strings.TrimSpace(s)
	if i := strings.IndexByte(s, '\n'); i >= 0 {
		s = s[:i]
	}
	if len(s) > 100 {
		s = s[:100]
	}
	return s
}

// globalStringInit: the string a package-level variable is initialised with in the package initialiser (empty if unknown).
func (eng *Engine) globalStringInit(g *ssa.Global) string {
	init := g.Pkg.Func("init")
	if init == nil {
		return ""
	}
	val := ""
	for _, b := range init.Blocks {
		for _, ins := range b.Instrs {
			if st, ok := ins.(*ssa.Store); ok && st.Addr == g {
				if c, ok := st.Val.(*ssa.Const); ok && c.Value != nil && c.Value.Kind() == constant.String {
					val = constant.StringVal(c.Value)
				}
			}
		}
	}
	return val
}

func init() {
	for _, p := range []string{"C18"} {
		propScans[p] = append(propScans[p], scanPureLeavesReadOnly)
	}
}

// scanBlockWritesThroughTx (C02): in the code reachable from SyncBlock by static calls (and closures), nothing writes through
// the connection pool (*sql.DB): no Exec/Begin/Prepare on a *sql.DB, and a *sql.DB handed to a function as a query handle
// only reaches functions whose SQL is read-only.  Together with the frame contracts (ledger writes happen in leaves that take
// the *sql.Tx) this is the "every write of a block belongs to the one transaction" side condition of the C02 argument.
func scanBlockWritesThroughTx(eng *Engine) []Result {
	name := "(*node.Pegnetd).SyncBlock/scan:block_writes_only_through_the_transaction_handle"
	root := eng.FindFunction("(*" + repoMod + "/node.Pegnetd).SyncBlock")
	if root == nil {
		return []Result{{Name: name, Kind: "scan", Status: "missing", Text: "SyncBlock not found"}}
	}
	isDB := func(v ssa.Value) bool {
		return v != nil && strings.HasSuffix(v.Type().String(), "database/sql.DB") && strings.HasPrefix(v.Type().String(), "*")
	}
	writesSQL := func(f *ssa.Function) string {
		bad := ""
		seen := map[*ssa.Function]bool{}
		var walk func(f *ssa.Function)
		walk = func(f *ssa.Function) {
			if f == nil || seen[f] || len(f.Blocks) == 0 {
				return
			}
			seen[f] = true
			for _, b := range f.Blocks {
				for _, ins := range b.Instrs {
					for _, op := range ins.Operands(nil) {
						if c, ok := (*op).(*ssa.Const); ok && c.Value != nil && c.Value.Kind() == constant.String && sqlWrite.MatchString(constant.StringVal(c.Value)) {
							bad = f.Name() + ": " + firstLine(constant.StringVal(c.Value))
						}
					}
					if call, ok := ins.(ssa.CallInstruction); ok {
						if cal := call.Common().StaticCallee(); cal != nil && cal.Pkg == f.Pkg {
							walk(cal)
						}
					}
				}
			}
		}
		walk(f)
		return bad
	}
	var problems []string
	seen := map[*ssa.Function]bool{}
	nfun := 0
	var visit func(f *ssa.Function)
	visit = func(f *ssa.Function) {
		if f == nil || seen[f] || len(f.Blocks) == 0 {
			return
		}
		if f.Pkg == nil || !strings.HasPrefix(f.Pkg.Pkg.Path(), repoMod) {
			return
		}
		seen[f] = true
		nfun++
		for _, b := range f.Blocks {
			for _, ins := range b.Instrs {
				call, ok := ins.(ssa.CallInstruction)
				if !ok {
					if mc, ok := ins.(*ssa.MakeClosure); ok {
						visit(mc.Fn.(*ssa.Function))
					}
					continue
				}
				c := call.Common()
				cal := c.StaticCallee()
				if cal != nil && cal.Signature.Recv() != nil && len(c.Args) > 0 && isDB(c.Args[0]) {
					switch cal.Name() {
					case "Exec", "ExecContext", "Begin", "BeginTx", "Prepare", "PrepareContext":
						problems = append(problems, f.Name()+" calls (*sql.DB)."+cal.Name())
					}
				}
				// a pool handle passed on as a query handle
				for _, a := range c.Args {
					if mi, ok := a.(*ssa.MakeInterface); ok && isDB(mi.X) && cal != nil {
						if bad := writesSQL(cal); bad != "" {
							problems = append(problems, f.Name()+" passes the pool to "+cal.Name()+" which writes: "+bad)
						}
					}
				}
				visit(cal)
			}
		}
		for _, an := range f.AnonFuncs {
			visit(an)
		}
	}
	visit(root)
	if len(problems) > 0 {
		sort.Strings(problems)
		return []Result{{Name: name, Kind: "scan", Fn: root.String(), Status: "sat", Text: "write through the connection pool on the block path: " + strings.Join(problems, "; ")}}
	}
	return []Result{{Name: name, Kind: "scan", Fn: root.String(), Status: "ok", Solver: fmt.Sprintf("ssa-scan(%d functions)", nfun)}}
}

func init() {
	propScans["C02"] = append(propScans["C02"], scanBlockWritesThroughTx)
}
