package main

// Syntactic side conditions of assumed contracts (kind "scan"): cheap checks over the SSA of /repo that back an assumption the
// deductive part relies on.  A scan that fails is reported like a failed obligation.

import (
	"go/constant"
	"regexp"
	"sort"
	"strings"

	"golang.org/x/tools/go/ssa"
)

var sqlWrite = regexp.MustCompile(`(?i)^\s*(insert|update|delete|replace|create|drop|alter|vacuum|pragma|attach)\b`)

// scanPureLeavesReadOnly: a storage leaf whose contract says `pure` (no effect on pre-existing state, in particular none on the
// ledger tables) may only issue read statements: every SQL string constant reachable from its body through functions of the
// same package must not start with a writing statement.
func scanPureLeavesReadOnly(eng *Engine) []Result {
	var out []Result
	var keys []string
	for k, ct := range eng.db.Contracts {
		// only the leaves the functions of this property actually call
		if ct.Trusted && ct.Pure && !ct.Extern && !ct.Site && strings.Contains(k, repoMod+"/node/pegnet.") && eng.usedContracts[k] {
			keys = append(keys, k)
		}
	}
	sort.Strings(keys)
	for _, k := range keys {
		fn := eng.FindFunction(k)
		name := shortKey(k) + "/scan:pure_leaf_issues_no_writing_sql"
		if fn == nil {
			out = append(out, Result{Name: name, Kind: "scan", Fn: k, Status: "missing", Text: "leaf under a pure contract no longer exists"})
			continue
		}
		bad := ""
		seen := map[*ssa.Function]bool{}
		var walk func(f *ssa.Function)
		walk = func(f *ssa.Function) {
			if f == nil || seen[f] || len(f.Blocks) == 0 {
				return
			}
			seen[f] = true
			for _, b := range f.Blocks {
				for _, ins := range b.Instrs {
					for _, op := range ins.Operands(nil) {
						if c, ok := (*op).(*ssa.Const); ok && c.Value != nil && c.Value.Kind() == constant.String {
							if s := constant.StringVal(c.Value); sqlWrite.MatchString(s) {
								bad = f.Name() + ": " + firstLine(s)
							}
						}
						if g, ok := (*op).(*ssa.Global); ok && g.Pkg == fn.Pkg {
							// package-level query strings (const-like vars) are initialised in init: look at the initial value
							if v := eng.globalStringInit(g); v != "" && sqlWrite.MatchString(v) {
								bad = f.Name() + ": " + firstLine(v)
							}
						}
					}
					if call, ok := ins.(ssa.CallInstruction); ok {
						if cal := call.Common().StaticCallee(); cal != nil && cal.Pkg == fn.Pkg {
							// helpers of the same package that carry their own (non-pure) contract are effects we already model
							walk(cal)
						}
					}
				}
			}
			for _, an := range f.AnonFuncs {
				walk(an)
			}
		}
		walk(fn)
		if bad != "" {
			out = append(out, Result{Name: name, Kind: "scan", Fn: k, Status: "sat", Text: "writing SQL reachable from a leaf assumed read-only: " + bad})
		} else {
			out = append(out, Result{Name: name, Kind: "scan", Fn: k, Status: "ok", Solver: "ssa-scan"})
		}
	}
	return out
}

func firstLine(s string) string {
	s = strings.TrimSpace(s)
	if i := strings.IndexByte(s, '\n'); i >= 0 {
		s = s[:i]
	}
	if len(s) > 100 {
		s = s[:100]
	}
	return s
}

// globalStringInit: the string a package-level variable is initialised with in the package initialiser (empty if unknown).
func (eng *Engine) globalStringInit(g *ssa.Global) string {
	init := g.Pkg.Func("init")
	if init == nil {
		return ""
	}
	val := ""
	for _, b := range init.Blocks {
		for _, ins := range b.Instrs {
			if st, ok := ins.(*ssa.Store); ok && st.Addr == g {
				if c, ok := st.Val.(*ssa.Const); ok && c.Value != nil && c.Value.Kind() == constant.String {
					val = constant.StringVal(c.Value)
				}
			}
		}
	}
	return val
}

func init() {
	for _, p := range []string{"C18"} {
		propScans[p] = append(propScans[p], scanPureLeavesReadOnly)
	}
}
