package main

// Cone-of-influence slicing of a query prefix. Dropping assertions is always sound when the goal is to prove
// unsatisfiability (it can only lose proofs, never create them), so a sliced query is tried first and the full
// query remains the fall-back.

import (
	"regexp"
	"strings"
)

type lineInfo struct {
	kind string   // decl | def | fact | other
	sym  string   // declared / defined symbol
	syms []string // symbols mentioned (declared names only)
}

var identRe = regexp.MustCompile(`[A-Za-z_][A-Za-z0-9_!.]*`)

func (sc *Script) analyse() {
	if sc.linfo != nil && len(sc.linfo) == len(sc.lines) {
		return
	}
	declared := map[string]bool{}
	for _, l := range sc.lines {
		if strings.HasPrefix(l, "(declare-const ") || strings.HasPrefix(l, "(declare-fun ") || strings.HasPrefix(l, "(define-fun ") || strings.HasPrefix(l, "(define-fun-rec ") {
			f := strings.Fields(l)
			if len(f) > 1 {
				declared[f[1]] = true
			}
		}
	}
	sc.linfo = make([]lineInfo, len(sc.lines))
	for i, l := range sc.lines {
		li := lineInfo{kind: "other"}
		switch {
		case strings.HasPrefix(l, "(declare-const "), strings.HasPrefix(l, "(declare-fun "):
			li.kind = "decl"
			li.sym = strings.Fields(l)[1]
		case strings.HasPrefix(l, "(define-fun "), strings.HasPrefix(l, "(define-fun-rec "):
			li.kind = "decl"
			li.sym = strings.Fields(l)[1]
		case strings.HasPrefix(l, "(assert (= "):
			rest := l[len("(assert (= "):]
			if j := strings.IndexAny(rest, " )"); j > 0 && declared[rest[:j]] && !strings.HasPrefix(rest, "(") {
				li.kind = "def"
				li.sym = rest[:j]
			} else {
				li.kind = "fact"
			}
		case strings.HasPrefix(l, "(assert "):
			li.kind = "fact"
		}
		seen := map[string]bool{}
		for _, id := range identRe.FindAllString(l, -1) {
			if declared[id] && !seen[id] {
				seen[id] = true
				li.syms = append(li.syms, id)
			}
		}
		sc.linfo[i] = li
	}
}

// slice returns the indices (in order) of the prefix lines kept for a goal mentioning the given text.
func (sc *Script) slice(prefixLen int, goalText string, factDepth int) []int {
	sc.analyse()
	need := map[string]int{} // symbol -> depth at which it became needed
	var queue []string
	add := func(s string, d int) {
		if _, ok := need[s]; !ok {
			need[s] = d
			queue = append(queue, s)
		}
	}
	declared := map[string]bool{}
	for i := 0; i < prefixLen; i++ {
		if sc.linfo[i].sym != "" && sc.linfo[i].kind == "decl" {
			declared[sc.linfo[i].sym] = true
		}
	}
	for _, id := range identRe.FindAllString(goalText, -1) {
		if declared[id] {
			add(id, 0)
		}
	}
	// index: symbol -> lines mentioning it
	bySym := map[string][]int{}
	for i := 0; i < prefixLen; i++ {
		for _, s := range sc.linfo[i].syms {
			bySym[s] = append(bySym[s], i)
		}
	}
	keep := make([]bool, prefixLen)
	for len(queue) > 0 {
		s := queue[0]
		queue = queue[1:]
		d := need[s]
		for _, i := range bySym[s] {
			if keep[i] {
				continue
			}
			li := sc.linfo[i]
			switch li.kind {
			case "decl":
				if li.sym == s {
					keep[i] = true
					for _, t := range li.syms {
						add(t, d)
					}
				}
			case "def":
				if li.sym == s {
					keep[i] = true
					for _, t := range li.syms {
						add(t, d)
					}
				}
				// a definition of another symbol that merely mentions s is not needed
			case "fact":
				if d < factDepth || isPathSym(s) {
					keep[i] = true
					nd := d + 1
					for _, t := range li.syms {
						add(t, nd)
					}
				}
			default:
				keep[i] = true
			}
		}
	}
	var out []int
	for i := 0; i < prefixLen; i++ {
		if keep[i] || sc.linfo[i].kind == "other" {
			out = append(out, i)
		}
	}
	return out
}

func isPathSym(s string) bool { return false }
