package main

// Discharging obligations: SMT-LIB assembly and the solver race.

import (
	"bytes"
	"context"
	"fmt"
	"os"
	"os/exec"
	"path/filepath"
	"strings"
	"sync"
	"time"
)

type Result struct {
	Name    string  `json:"name"`
	Kind    string  `json:"kind"`
	Fn      string  `json:"fn"`
	Status  string  `json:"result"` // unsat (discharged) | sat | unknown | timeout | error | refused
	Solver  string  `json:"solver"`
	Ms      int64   `json:"ms"`
	Model   string  `json:"-"`
	Output  string  `json:"-"`
	Canary  bool    `json:"canary,omitempty"`
	Pos     string  `json:"pos,omitempty"`
	Text    string  `json:"text,omitempty"`
	Query   string  `json:"-"`
	replayed   bool
	replayTest string
	replayOut  string
}

func (o *Obligation) Query(withModel bool) string { return o.QuerySliced(withModel, -1) }

// QuerySliced builds the query; factDepth < 0 means the full prefix, otherwise the cone of influence of the goal
// with facts followed up to the given depth.
func (o *Obligation) QuerySliced(withModel bool, factDepth int) string {
	var b strings.Builder
	b.WriteString(basePreamble)
	for _, d := range o.Script.sorts.decls {
		b.WriteString(d)
		b.WriteString("\n")
	}
	if factDepth >= 0 {
		for _, i := range o.Script.slice(o.PrefixLen, o.PC+" "+o.Goal, factDepth) {
			b.WriteString(o.Script.lines[i])
			b.WriteString("\n")
		}
	} else {
		for _, l := range o.Script.lines[:o.PrefixLen] {
			b.WriteString(l)
			b.WriteString("\n")
		}
	}
	if o.PC != "" && o.PC != "true" {
		fmt.Fprintf(&b, "(assert %s)\n", o.PC)
	}
	fmt.Fprintf(&b, "(assert (not %s))\n", o.Goal)
	b.WriteString("(check-sat)\n")
	if withModel {
		b.WriteString("(get-model)\n")
	}
	return b.String()
}

type solverSpec struct {
	name string
	args func(file string, timeoutS int) []string
}

var solvers = map[string]solverSpec{
	"z3-new": {"z3-new", func(f string, t int) []string { return []string{"z3-new", fmt.Sprintf("-T:%d", t), f} }},
	"z3-em":  {"z3-em", func(f string, t int) []string {
		return []string{"z3-new", "smt.mbqi=false", "smt.auto_config=false", fmt.Sprintf("-T:%d", t), f}
	}},
	"z3":     {"z3", func(f string, t int) []string { return []string{"z3", fmt.Sprintf("-T:%d", t), f} }},
	"cvc5":   {"cvc5", func(f string, t int) []string { return []string{"cvc5", fmt.Sprintf("--tlimit=%d", t*1000), f} }},
}

func firstWord(out string) string {
	for _, l := range strings.Split(out, "\n") {
		l = strings.TrimSpace(l)
		if l == "" {
			continue
		}
		return l
	}
	return ""
}

// runSolvers races the named solvers on a query file; returns the first definitive answer.
func runSolvers(query string, names []string, timeoutS int, workdir string, tag string) (status, solver, output string, ms int64) {
	file := filepath.Join(workdir, tag+".smt2")
	os.WriteFile(file, []byte(query), 0644)
	defer os.Remove(file)
	type ans struct {
		status, solver, out string
		ms                  int64
	}
	ctx, cancel := context.WithCancel(context.Background())
	defer cancel()
	ch := make(chan ans, len(names))
	start := time.Now()
	for _, n := range names {
		sp := solvers[n]
		go func(sp solverSpec) {
			args := sp.args(file, timeoutS)
			cmd := exec.CommandContext(ctx, args[0], args[1:]...)
			var buf bytes.Buffer
			cmd.Stdout = &buf
			cmd.Stderr = &buf
			cmd.Run()
			out := buf.String()
			w := firstWord(out)
			st := "unknown"
			switch {
			case w == "unsat":
				st = "unsat"
			case w == "sat":
				st = "sat"
			case w == "timeout" || strings.Contains(out, "timeout") || strings.Contains(out, "interrupted"):
				st = "timeout"
			case strings.HasPrefix(w, "(error") || strings.Contains(w, "rror"):
				st = "error"
			}
			ch <- ans{st, sp.name, out, time.Since(start).Milliseconds()}
		}(sp)
	}
	var last ans
	for i := 0; i < len(names); i++ {
		a := <-ch
		if a.status == "unsat" || a.status == "sat" {
			return a.status, a.solver, a.out, a.ms
		}
		if last.status == "" || last.status == "error" || (a.status != "error") {
			last = a
		}
	}
	return last.status, last.solver, last.out, last.ms
}

type SolveOpts struct {
	Solvers  []string
	TimeoutS int
	Workdir  string
	Parallel int
	DumpDir  string
	ShortFor map[string]bool
}

func SolveAll(obls []*Obligation, opts SolveOpts) []Result {
	res := make([]Result, len(obls))
	sem := make(chan struct{}, opts.Parallel)
	var wg sync.WaitGroup
	for i, o := range obls {
		wg.Add(1)
		go func(i int, o *Obligation) {
			defer wg.Done()
			sem <- struct{}{}
			defer func() { <-sem }()
			if o.Kind == "scan" && (o.Goal == "true" || o.Goal == "false") {
				// structural obligation decided by the generator on the control-flow graph: no solver involved
				st := "unsat"
				if o.Goal == "false" {
					st = "sat"
				}
				res[i] = Result{Name: o.Name, Kind: o.Kind, Fn: o.Fn, Status: st, Solver: "cfg-scan", Pos: o.Pos, Text: o.Text}
				return
			}
			q := o.Query(true)
			if opts.DumpDir != "" {
				os.WriteFile(filepath.Join(opts.DumpDir, sanitize(o.Name)+".smt2"), []byte(q), 0644)
			}
			// sliced attempts first (sound for unsat): small cone, then a larger one, then the full query
			if !o.Canary && o.PrefixLen > 300 {
				proved := false
				for _, depth := range []int{2, 4} {
					sq := o.QuerySliced(false, depth)
					if len(sq) > len(q)*9/10 {
						continue
					}
					sto := 8
					st, sv, out, ms := runSolvers(sq, opts.Solvers, sto, opts.Workdir, fmt.Sprintf("q%ds%d", i, depth))
					if st == "unsat" {
						res[i] = Result{Name: o.Name, Kind: o.Kind, Fn: o.Fn, Status: st, Solver: sv + fmt.Sprintf("(slice%d)", depth), Ms: ms, Output: out, Canary: o.Canary, Pos: o.Pos, Text: o.Text, Query: sq}
						proved = true
						break
					}
				}
				if proved {
					return
				}
			}
			// a postcondition is a conjunction over the return points: when the whole does not go through quickly, discharge the
			// conjuncts one by one (all must be unsat; the first that is not decides the result)
			if len(o.Parts) > 1 && !o.Canary {
				st, sv, out, ms := runSolvers(q, opts.Solvers, 10, opts.Workdir, fmt.Sprintf("q%dw", i))
				if st == "unsat" {
					res[i] = Result{Name: o.Name, Kind: o.Kind, Fn: o.Fn, Status: st, Solver: sv, Ms: ms, Output: out, Pos: o.Pos, Text: o.Text, Query: q}
					return
				}
				var total int64 = ms
				r := Result{Name: o.Name, Kind: o.Kind, Fn: o.Fn, Status: "unsat", Solver: "", Pos: o.Pos, Text: o.Text, Query: q}
				for pi, part := range o.Parts {
					po := *o
					po.Goal = part
					po.Parts = nil
					pq := po.Query(true)
					pst, psv := "", ""
					var pout string
					var pms int64
					if po.PrefixLen > 300 {
						for _, depth := range []int{2, 4} {
							sq := po.QuerySliced(false, depth)
							if len(sq) > len(pq)*9/10 {
								continue
							}
							pst, psv, pout, pms = runSolvers(sq, opts.Solvers, 8, opts.Workdir, fmt.Sprintf("q%dp%ds%d", i, pi, depth))
							total += pms
							if pst == "unsat" {
								psv += fmt.Sprintf("(slice%d)", depth)
								break
							}
						}
					}
					if pst != "unsat" {
						to := opts.TimeoutS
						if opts.ShortFor[o.Name] && to > 5 {
							to = 5
						}
						pst, psv, pout, pms = runSolvers(pq, opts.Solvers, to, opts.Workdir, fmt.Sprintf("q%dp%d", i, pi))
						total += pms
					}
					r.Solver = psv + fmt.Sprintf("(by return point, %d parts)", len(o.Parts))
					if pst != "unsat" {
						r.Status, r.Output, r.Query = pst, pout, pq
						if pst == "sat" {
							r.Model = pout
						}
						r.Text = o.Text + fmt.Sprintf(" [return point %d of %d]", pi+1, len(o.Parts))
						break
					}
				}
				r.Ms = total
				res[i] = r
				return
			}
			to := opts.TimeoutS
			if o.Canary && to > 4 {
				to = 4 // a canary only has to *fail to be proved*; contradictions show up fast
			}
			svs := opts.Solvers
			if opts.ShortFor[o.Name] && to > 5 {
				to = 5 // recorded open finding: expected not to discharge
			}
			if o.Kind == "path" {
				svs = []string{"z3-em"} // contradictions among assumptions show up by E-matching at once
				to = 3
			}
			st, sv, out, ms := runSolvers(q, svs, to, opts.Workdir, fmt.Sprintf("q%d", i))
			r := Result{Name: o.Name, Kind: o.Kind, Fn: o.Fn, Status: st, Solver: sv, Ms: ms, Output: out, Canary: o.Canary, Pos: o.Pos, Text: o.Text, Query: q}
			if st == "sat" {
				r.Model = out
			}
			res[i] = r
		}(i, o)
	}
	wg.Wait()
	return res
}
