package main

// `govc check <property>`: generate, discharge, triage, write evidence.

import (
	"regexp"
	"encoding/json"
	"flag"
	"fmt"
	"os"
	"path/filepath"
	"sort"
	"strconv"
	"strings"
	"time"
)

type KnownFinding struct {
	Property   string `json:"property"`
	Obligation string `json:"obligation"`
	Status     string `json:"status"` // open | fixed
	What       string `json:"what"`
	Commit     string `json:"commit,omitempty"`
	Replay     string `json:"replay,omitempty"`
	Signature  string `json:"signature,omitempty"` // bounded checks: signature of the complete set of failing cases the finding covers
	SignatureThorough string `json:"signature_thorough,omitempty"` // the same under the wider bounds of the thorough tier
}

type Evidence struct {
	PropertyID  string                 `json:"property_id"`
	Tier        string                 `json:"tier"`
	Seed        int                    `json:"seed"`
	Level       string                 `json:"level"`
	Coverage    map[string]interface{} `json:"coverage"`
	Assumptions []string               `json:"assumptions"`
	WallS       float64                `json:"wall_s"`
	Violations  int                    `json:"violations"`
}

func hasProp(ps []string, id string) bool {
	for _, p := range ps {
		if p == id {
			return true
		}
	}
	return false
}

func cmdCheck(args []string) {
	fs := flag.NewFlagSet("check", flag.ExitOnError)
	tier := fs.String("tier", envOr("VERIF_TIER", "quick"), "quick|thorough")
	updateBaseline := fs.Bool("update-baseline", false, "rewrite the baseline of obligation names for this property")
	// accept flags after the property id as well ("check C07 --tier thorough")
	var flags, pos []string
	for i := 0; i < len(args); i++ {
		a := args[i]
		if strings.HasPrefix(a, "-") {
			flags = append(flags, a)
			if (a == "--tier" || a == "-tier") && i+1 < len(args) {
				i++
				flags = append(flags, args[i])
			}
		} else {
			pos = append(pos, a)
		}
	}
	fs.Parse(append(flags, pos...))
	if fs.NArg() < 1 {
		fmt.Fprintln(os.Stderr, "usage: govc check <property-id>")
		os.Exit(2)
	}
	pid := fs.Arg(0)
	os.Setenv("VERIF_TIER", *tier) // the bounded stand-ins widen their bounds in the thorough tier
	verif := envOr("VERIF_DIR", "/verif")
	repo := envOr("VERIF_REPO", "/repo")
	seed, _ := strconv.Atoi(envOr("VERIF_SEED", "0"))
	t0 := time.Now()

	engineFail := func(msg string) {
		fmt.Printf("ENGINE-ERROR property=%s %s\n", pid, msg)
		os.Exit(2)
	}

	eng, err := LoadEngine(repo, verif)
	if err != nil {
		// the tree does not load (does not compile): nothing can be decided
		engineFail("cannot load /repo: " + err.Error())
	}
	if len(eng.db.Errors) > 0 {
		engineFail("contract errors: " + strings.Join(eng.db.Errors, "; "))
	}

	timeout := 45
	solverList := []string{"z3-new", "z3-em", "cvc5"}
	if *tier == "thorough" {
		timeout = 120
		solverList = []string{"z3-new", "z3-em", "cvc5", "z3"}
	}
	// VERIF_OUT redirects work files and evidence (used when a check is run against a scratch copy carrying a seeded change,
	// so that the committed evidence of the real tree is not overwritten)
	outDir := envOr("VERIF_OUT", verif)
	work := filepath.Join(outDir, "work", pid)
	os.RemoveAll(work)
	os.MkdirAll(work, 0755)

	var keys []string
	for k, ct := range eng.db.Contracts {
		if !ct.Trusted && hasProp(ct.Props, pid) {
			keys = append(keys, k)
		}
	}
	sort.Strings(keys)

	var obls []*Obligation
	var structural []Result // missing functions, refusals, scans
	var fnList []string
	assumptions := map[string]bool{}
	uncontracted := map[string]bool{}
	var notes []string
	for _, k := range keys {
		ct := eng.db.Contracts[k]
		fn := eng.FindFunction(k)
		if fn == nil {
			structural = append(structural, Result{Name: shortKey(k) + "/exists:function", Kind: "exists", Fn: k, Status: "missing", Text: "function under contract no longer exists"})
			continue
		}
		g := NewGen(eng, fn, ct)
		g.Run()
		if g.refuse != "" {
			structural = append(structural, Result{Name: shortKey(k) + "/refused", Kind: "refused", Fn: k, Status: "refused", Text: g.refuse})
			continue
		}
		fnList = append(fnList, k)
		obls = append(obls, g.autoCanaries()...)
		for _, o := range g.obls {
			if len(o.Props) > 0 && !hasProp(o.Props, pid) {
				continue
			}
			obls = append(obls, o)
		}
		for a := range g.assumptions {
			assumptions[a] = true
		}
		for u := range g.uncontracted {
			uncontracted[u] = true
		}
		if ct.Arith != "checked" {
			assumptions["machine arithmetic in "+shortKey(k)+" modelled exactly with wrap-around (no overflow obligations claimed there)"] = true
		}
		for _, n := range g.notes {
			notes = append(notes, shortKey(k)+": "+n)
		}
	}
	// lemmas
	for _, lm := range eng.db.Lemmas {
		if hasProp(lm.Props, pid) {
			o, err := eng.lemmaObligation(lm)
			if err != nil {
				structural = append(structural, Result{Name: "lemma:" + lm.Name, Kind: "lemma", Status: "error", Text: err.Error()})
				continue
			}
			obls = append(obls, o)
		}
	}
	// scans
	for _, sc := range propScans[pid] {
		structural = append(structural, sc(eng)...)
	}

	skippedSlow := 0
	if *tier != "thorough" {
		var keep []*Obligation
		for _, o := range obls {
			if o.Slow {
				skippedSlow++
				continue
			}
			keep = append(keep, o)
		}
		obls = keep
	}
	known := loadKnown(filepath.Join(verif, "known_findings.json"))
	short := map[string]bool{}
	for _, k := range known {
		if k.Status == "open" && k.Property == pid {
			short[k.Obligation] = true
		}
	}
	// bounded stand-ins for assumed leaf contracts run beside the solver race
	bspecs := loadBounded(verif, pid)
	bch := make(chan []BoundedResult, 1)
	go func() { bch <- runBounded(bspecs, repo, verif, work) }()
	results := SolveAll(obls, SolveOpts{Solvers: solverList, TimeoutS: timeout, Workdir: work, Parallel: 8, ShortFor: short})
	results = append(results, structural...)
	bounded := <-bch

	baselinePath := filepath.Join(verif, "baseline", pid+".json")
	var baseline []string
	if b, err := os.ReadFile(baselinePath); err == nil {
		json.Unmarshal(b, &baseline)
	}

	discharged, total := 0, 0
	var violations []string
	var knownLines []string
	var engineErrs []string
	var samples []map[string]interface{}
	var slowest []map[string]interface{} // the slowest discharged obligations (how close the run is to the time limit)
	var solverMs int64
	have := map[string]bool{}
	canaries := 0
	var deadPaths []string
	var newDead []string
	for _, r := range results {
		have[r.Name] = true
		solverMs += r.Ms
		if r.Canary && r.Kind == "path" {
			canaries++
			if r.Status == "unsat" {
				deadPaths = append(deadPaths, r.Name)
			}
			continue
		}
		if r.Canary {
			canaries++
			if r.Status == "unsat" {
				engineErrs = append(engineErrs, "canary proved (vacuous context?): "+r.Name)
			} else if r.Status == "error" {
				engineErrs = append(engineErrs, "canary query error: "+r.Name+": "+firstWord(r.Output))
			}
			continue
		}
		total++
		if r.Status == "unsat" || r.Status == "ok" {
			slowest = append(slowest, map[string]interface{}{"name": r.Name, "solver": r.Solver, "ms": r.Ms})
		}
		if len(samples) < 400 {
			samples = append(samples, map[string]interface{}{"name": r.Name, "kind": r.Kind, "solver": r.Solver, "result": r.Status, "ms": r.Ms})
		}
		if r.Status == "unsat" || r.Status == "ok" {
			discharged++
			continue
		}
		if r.Status == "error" && r.Kind != "lemma" && r.Kind != "scan" {
			engineErrs = append(engineErrs, "solver error on "+r.Name+": "+firstWord(r.Output))
			continue
		}
		// failed obligation
		if kf := matchKnown(known, pid, r.Name); kf != nil {
			knownLines = append(knownLines, fmt.Sprintf("KNOWN-FINDING: property=%s %s [%s]", pid, kf.What, r.Name))
			total-- // a recorded finding is neither counted as an obligation nor as discharged
			continue
		}
		path := writeReplay(work, pid, r)
		suffix := ""
		if !r.replayed {
			suffix = " no-failing-input-found"
		}
		violations = append(violations, fmt.Sprintf("VIOLATION property=%s replay=%s%s", pid, path, suffix))
		fmt.Printf("  failed: %s (%s, %s) %s\n", r.Name, r.Status, r.Solver, r.Text)
	}
	// bounded conformance results: a failing one is a violation with a concrete failing input on the real code
	var boundedEv []map[string]interface{}
	boundedEvals := 0
	for _, br := range bounded {
		boundedEv = append(boundedEv, map[string]interface{}{"test": br.Spec.Test, "label": "bounded", "stands_in_for": br.Spec.StandsFor, "bound": br.Spec.Bound,
			"result": br.Status, "seconds": br.Seconds, "failed_clauses": br.Fails, "evaluations": br.Evals})
		boundedEvals += br.Evals
		switch br.Status {
		case "pass":
		case "fail":
			name := "bounded:" + br.Spec.Test
			wantSig := func(kf *KnownFinding) string {
				if *tier == "thorough" && kf.SignatureThorough != "" {
					return kf.SignatureThorough
				}
				return kf.Signature
			}
			if kf := matchKnown(known, pid, name); kf != nil && (wantSig(kf) == "" || wantSig(kf) == br.Sig) {
				knownLines = append(knownLines, fmt.Sprintf("KNOWN-FINDING: property=%s %s [%s]", pid, kf.What, name))
				continue
			} else if kf != nil {
				br.Fails = append(br.Fails, fmt.Sprintf("the set of failing cases (%s) differs from the one recorded for the known finding (%s): a different violation", br.Sig, wantSig(kf)))
			}
			path := writeBoundedReplay(work, pid, repo, verif, br)
			violations = append(violations, fmt.Sprintf("VIOLATION property=%s replay=%s", pid, path))
			fmt.Printf("  failed: bounded:%s %v\n", br.Spec.Test, br.Fails)
		default:
			engineErrs = append(engineErrs, "bounded check "+br.Spec.Test+" did not run: "+lastLines(br.Output, 8))
		}
	}
	// obligations that existed in the baseline but are gone.  Names carry a snippet of the source line they belong to
	// ("inv-keep:loop1:status @ if err != nil {", "bounds:x := a[i]"); a harmless re-wording of that line must not raise an
	// alarm, so the comparison is by function + kind + clause label: every contract-derived obligation of the
	// baseline must still be generated at least once (a lower count only means merged paths or a removed site).  Pure run-time safety obligations (bounds, nil, ...) exist only
	// where the code has such an operation and are not compared.
	haveCoarse := map[string]int{}
	for n := range have {
		if k := coarseKey(n); k != "" {
			haveCoarse[k]++
		}
	}
	baseCoarse := map[string]int{}
	var baseOrder []string
	for _, n := range baseline {
		if k := coarseKey(n); k != "" {
			if baseCoarse[k] == 0 {
				baseOrder = append(baseOrder, k)
			}
			baseCoarse[k]++
		}
	}
	var missing []string
	for _, k := range baseOrder {
		if haveCoarse[k] == 0 {
			missing = append(missing, fmt.Sprintf("%s (baseline %d, now %d)", k, baseCoarse[k], haveCoarse[k]))
		} else if haveCoarse[k] < baseCoarse[k] {
			// fewer instances of a clause (one per back edge, return point, call site or write): paths were merged or a
			// site was removed; every remaining instance is still discharged, and what a removed site did is for the
			// postconditions to notice.  Not an alarm (seeded_harmless/h23, h24), but kept in the evidence.
			notes = append(notes, fmt.Sprintf("fewer instances than on the pinned tree: %s (baseline %d, now %d)", shortKey(k), baseCoarse[k], haveCoarse[k]))
		}
	}
	for _, n := range missing {
		{
			if kf := matchKnown(known, pid, n); kf != nil {
				continue
			}
			r := Result{Name: n, Kind: "exists", Status: "missing", Text: "obligation of the committed baseline is no longer generated (contract target changed or removed)"}
			path := writeReplay(work, pid, r)
			violations = append(violations, fmt.Sprintf("VIOLATION property=%s replay=%s no-failing-input-found", pid, path))
			fmt.Printf("  missing: %s\n", n)
			total++
		}
	}
	// dead paths must be exactly those recorded for the pinned tree (dead code); a new one means that some
	// assumed contract contradicts the code around it (vacuity), which would make proofs on that path worthless
	deadBasePath := filepath.Join(verif, "baseline", pid+".dead.json")
	var deadBase []string
	if b, err := os.ReadFile(deadBasePath); err == nil {
		json.Unmarshal(b, &deadBase)
	}
	sort.Strings(deadPaths)
	if !*updateBaseline {
		known := map[string]bool{}
		for _, d := range deadBase {
			known[d] = true
		}
		for _, d := range deadPaths {
			if !known[d] {
				notes = append(notes, "unreachable path (not in baseline): "+d)
				newDead = append(newDead, d)
			}
		}
	} else {
		b, _ := json.MarshalIndent(deadPaths, "", " ")
		os.MkdirAll(filepath.Dir(deadBasePath), 0755)
		os.WriteFile(deadBasePath, b, 0644)
	}
	if *updateBaseline {
		// types of the locals the contracts name (merged over the properties)
		np := filepath.Join(verif, "baseline", "names.json")
		merged := map[string]map[string]string{}
		if b, err := os.ReadFile(np); err == nil {
			json.Unmarshal(b, &merged)
		}
		for fn, m := range eng.seenNames {
			merged[fn] = m // the names seen now replace what was recorded for the function
		}
		if b, err := json.MarshalIndent(merged, "", " "); err == nil {
			os.WriteFile(np, b, 0644)
		}
		lp := filepath.Join(verif, "baseline", "loops.json")
		mergedL := map[string][]string{}
		if b, err := os.ReadFile(lp); err == nil {
			json.Unmarshal(b, &mergedL)
		}
		for fn, k := range eng.seenLoops {
			mergedL[fn] = k
		}
		if b, err := json.MarshalIndent(mergedL, "", " "); err == nil {
			os.WriteFile(lp, b, 0644)
		}
		var names []string
		for _, r := range results {
			if !r.Canary && (r.Status == "unsat" || r.Status == "ok") {
				names = append(names, r.Name)
			}
		}
		sort.Strings(names)
		os.MkdirAll(filepath.Dir(baselinePath), 0755)
		b, _ := json.MarshalIndent(names, "", " ")
		os.WriteFile(baselinePath, b, 0644)
	}

	// evidence
	var as []string
	for a := range assumptions {
		as = append(as, a)
	}
	var trusted []string
	for k := range eng.usedContracts {
		ct := eng.db.Contracts[k]
		if ct != nil && ct.Trusted {
			kind := "extern contract (assumed)"
			if !ct.Extern {
				kind = "storage-leaf contract (assumed; body is SQL)"
			}
			trusted = append(trusted, kind+": "+k)
		}
	}
	for u := range uncontracted {
		trusted = append(trusted, "uncontracted callee (effects havocked, result unconstrained): "+u)
	}
	trusted = append(trusted, "go/types + go/ssa (x/tools v0.29.0) as semantics of the source", "govc VC generator (this tool)", "SMT solvers z3 5.1.0 / cvc5 1.0.3 / z3 4.8.12")
	sort.Strings(trusted)
	sort.Strings(as)
	as = append(as, staticAssumptions...)
	level := "proof"
	if exp, ok := boundedCore[pid]; ok {
		level = "other"
		defer func() {}()
		_ = exp
	}
	ev := Evidence{PropertyID: pid, Tier: *tier, Seed: seed, Level: level, WallS: time.Since(t0).Seconds(), Violations: len(violations), Assumptions: as,
		Coverage: map[string]interface{}{
			"obligations":              total,
			"discharged":               discharged,
			"checker_cmd":              fmt.Sprintf("govc check %s --tier %s  (solvers %s, %ds/obligation, queries generated from %s)", pid, *tier, strings.Join(solverList, "|"), timeout, repo),
			"trusted_base":             trusted,
			"functions_under_contract": fnList,
			"samples":                  samples,
			"solver_time_s":            float64(solverMs) / 1000.0,
			"slowest_discharged":       topSlow(slowest, 8),
			"canaries_checked":         canaries,
			"known_findings":           knownLines,
			"engine_notes":             notes,
			"dead_paths":               deadPaths,
			"new_unreachable_paths":    newDead,
			"undecided_clauses":        undecidedClauses[pid],
			"bounded_checks":           boundedEv,
			"bounded_evaluations":      boundedEvals,
			"contract_files":           eng.db.Files,
			"slow_obligations_left_to_thorough_tier": skippedSlow,
		}}
	if exp, ok := boundedCore[pid]; ok {
		ev.Coverage["explanation"] = exp
	}
	os.MkdirAll(filepath.Join(outDir, "evidence"), 0755)
	b, _ := json.MarshalIndent(ev, "", " ")
	os.WriteFile(filepath.Join(outDir, "evidence", pid+".json"), b, 0644)

	for _, l := range knownLines {
		fmt.Println(l)
	}
	fmt.Printf("property %s: %d/%d obligations discharged, %d functions, %d canaries, %.1fs\n", pid, discharged, total, len(fnList), canaries, time.Since(t0).Seconds())
	for _, e := range engineErrs {
		fmt.Println("ENGINE-ERROR:", e)
	}
	// failed obligations decide first: a changed tree that breaks obligations AND confuses a canary is a violation (exit 1),
	// not a broken check; a run with engine errors only cannot vouch for anything (exit 2)
	if len(violations) > 0 {
		for _, v := range violations {
			fmt.Println(v)
		}
		os.Exit(1)
	}
	if len(engineErrs) > 0 {
		os.Exit(2)
	}
	if total == 0 {
		engineFail("no obligations generated")
	}
	os.Exit(0)
}

// coarseKey: function/kind:label of an obligation name, without the source snippet and the occurrence number; "" for pure
// run-time safety obligations.
var inHelper = regexp.MustCompile(`^(/[a-z-]+:)(?:in [\w$]+: )+`)

func coarseKey(name string) string {
	i := strings.Index(name, "/")
	for j := i; j >= 0 && j < len(name); {
		// the function part may itself contain '/': the kind starts after the last '/' that precedes the first ':' after ')'
		break
	}
	// split at the last "/" before the first kind marker
	cut := -1
	for _, kind := range []string{"/pre:", "/ensures:", "/inv-init:", "/inv-keep:", "/frame:", "/frame-write:", "/lemma", "/scan:", "/body-assert:", "/exists:", "/refused", "/canary:"} {
		if p := strings.Index(name, kind); p >= 0 && (cut < 0 || p < cut) {
			cut = p
		}
	}
	if strings.HasPrefix(name, "lemma:") {
		return name
	}
	if cut < 0 {
		return "" // bounds:, slice:, nilderef:, nilmap:, div0:, typeassert:, overflow:, nonnil-arg:, nilinvoke:, path:
	}
	rest := name[cut:]
	// raised inside a helper executed in place ("/pre:in helperName: at-site:..."): the same obligation as before the helper was extracted
	rest = inHelper.ReplaceAllString(rest, "$1")
	if p := strings.Index(rest, " @ "); p >= 0 {
		rest = rest[:p]
	}
	if p := strings.LastIndex(rest, "#"); p >= 0 {
		if _, err := strconv.Atoi(rest[p+1:]); err == nil {
			rest = rest[:p]
		}
	}
	_ = i
	if strings.Contains(rest, ":auto-") {
		return "" // automatic index facts of a loop are offered only where the loop has that shape; nothing is lost when they are absent
	}
	return name[:cut] + rest
}

func shortKey(k string) string { return strings.ReplaceAll(k, repoMod+"/", "") }

var staticAssumptions = []string{
	"callee bodies are replaced by their contracts (modular verification); trusted/extern contracts are assumed",
	"pointer parameters are non-nil unless declared nullable; scalar-typed pointer parameters do not alias struct fields",
	"append is modelled as reallocation with copy",
	"termination is not proved",
	"goroutines/channels are outside the supported subset (functions using them are refused)",
}

var undecidedClauses = map[string][]string{
	"C01": {"whole-history composition of the per-function determinism results", "row order returned by the storage leaves (ORDER BY clauses are SQL text)"},
	"C02": {"behaviour at crash points (SQLite atomic commit and durability are trusted)"},
	"C03": {"equivalence of the in-memory funds simulation of applyTransactionBatch with the database debits of recordBatch in the bank era (F8)"},
	"C04": {"sum of supply deltas over a whole chain", "NullifyMintedTokens / NullifyBurnAddress effects (assumed contracts)"},
	"C05": {"cryptographic unforgeability; fat103.Validate", "replay key vs. RCD-e recovery byte (F9)"},
	"C07": {"the averages function itself (bounded under C09)"},
	"C08": {"termination", "a healthy environment implies SyncBlock returns nil for the whole block (UNIQUE-key wedging, F6)"},
	"C09": {"GetPegNetRateAverages beyond the stated bound"},
	"C10": {"eventual recovery (liveness)", "completeness of row iteration in the storage leaves beyond the bounded fault check (F14 fixed, F14b open)"},
	"C11": {"grading algorithms of the pegnet modules", "binding of the SPR staker id to the signing key (F10)"},
	"C12": {"numeric value of the float64 tolerance computation (float operations are uninterpreted in GetAssetRates/GetAssetRatesV0)"},
	"C13": {"completeness: every other well-formed conversion is executed"},
	"C14": {"accumulation of the per-asset Convert results into one stake per address in SnapshotPayouts (nested-loop invariant; only the inputs of every Convert call are pinned)"},
	"C15": {"NullifyMintedTokens / NullifyBurnAddress (assumed contracts; F16)"},
	"C16": {"SyncBank (assumed contract)", "recordPegnetRequests beyond the stated bound"},
	"C17": {"replaying recorded history reproduces the balances (whole history)", "paging exactly-once beyond the stated bound (SQL LIMIT/OFFSET)"},
	"C18": {"interleavings and data races as such (argument: empty frame on shared memory)", "the unsynchronised read of Sync.Synced", "SQLite isolation between pool connections and the block transaction", "the closure returned by getTransactions"},
	"C19": {"pegnet.New / Init (opening the database file, migrations) are assumed not to touch ledger content"},
	"C20": {"acceptance of exactly the canonical JSON language and the encode/decode round trip beyond the stated bound (encoding/json, jsonlen)"},
}

// properties whose deciding function is outside the verified subset: the contract of that function is stated and used by the
// verified callers, the function itself is only checked up to a stated bound.  Their evidence level is "other", never "proof".
var boundedCore = map[string]string{
	"C09": "Contract-based, with a BOUNDED stand-in for the deciding function: GetPegNetRateAverages (closures, defer, in-place slice shifting) is outside the subset the VC generator handles, so its contract 'the result is a function of the recorded rates and the height only' is assumed by the deductively verified callers (obligations/discharged count those) and checked only up to the bounds listed under bounded_checks by replaying the sync routine's exact call sequence with and without restarts on the real code. Nothing here is counted as proved for GetPegNetRateAverages itself.",
}

func loadKnown(path string) []KnownFinding {
	var k []KnownFinding
	if b, err := os.ReadFile(path); err == nil {
		json.Unmarshal(b, &k)
	}
	return k
}

func matchKnown(ks []KnownFinding, pid, name string) *KnownFinding {
	for i := range ks {
		if ks[i].Status == "open" && ks[i].Property == pid && ks[i].Obligation == name {
			return &ks[i]
		}
	}
	return nil
}

func writeReplay(work, pid string, r Result) string {
	dir := filepath.Join(work, "replay")
	os.MkdirAll(dir, 0755)
	path := filepath.Join(dir, sanitize(r.Name)+".json")
	out := r.Output
	if len(out) > 20000 {
		out = out[:20000]
	}
	qpath := ""
	if r.Query != "" {
		qpath = filepath.Join(dir, sanitize(r.Name)+".smt2")
		os.WriteFile(qpath, []byte(r.Query), 0644)
	}
	m := map[string]interface{}{"property": pid, "obligation": r.Name, "kind": r.Kind, "function": r.Fn, "clause": r.Text, "pos": r.Pos,
		"solver": r.Solver, "solver_result": r.Status, "solver_output": out, "query": qpath, "replayed_on_real_code": r.replayed, "replay_test": r.replayTest, "replay_output": r.replayOut}
	b, _ := json.MarshalIndent(m, "", " ")
	os.WriteFile(path, b, 0644)
	return path
}

type scanFn func(eng *Engine) []Result

var propScans = map[string][]scanFn{}

// autoCanaries: reachability of the entry (requires satisfiable) and of every return point.
func (g *Gen) autoCanaries() []*Obligation {
	k := g.fn.String()
	out := []*Obligation{{Name: g.fnShort() + "/canary:entry-reachable", Kind: "canary", Fn: k, PrefixLen: g.entryPrefix, PC: "true", Goal: "false", Canary: true, Script: g.sc}}
	if len(g.rets) > 0 {
		var pcs []string
		for _, rp := range g.rets {
			pcs = append(pcs, rp.st.pc)
		}
		out = append(out, &Obligation{Name: g.fnShort() + "/canary:exit-reachable", Kind: "canary", Fn: k, PrefixLen: len(g.sc.lines), PC: "(or " + strings.Join(pcs, " ") + " false)", Goal: "false", Canary: true, Script: g.sc})
	}
	// path canaries: every return and every loop back edge must stay reachable under the assumed contracts
	// (an unreachable one is either dead code, recorded in the baseline, or a contradiction among assumptions)
	for _, pp := range g.pathPoints {
		out = append(out, &Obligation{Name: g.fnShort() + "/path:" + pp.label, Kind: "path", Fn: k, PrefixLen: pp.prefix, PC: pp.pc, Goal: "false", Canary: true, Script: g.sc})
	}
	return out
}

// topSlow: the n slowest discharged obligations
func topSlow(xs []map[string]interface{}, n int) []map[string]interface{} {
	sort.Slice(xs, func(i, j int) bool { return xs[i]["ms"].(int64) > xs[j]["ms"].(int64) })
	if len(xs) > n {
		xs = xs[:n]
	}
	return xs
}
