package main

func cmdCheck(args []string) {}
