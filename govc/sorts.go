package main

// Mapping of Go types to SMT sorts, zero values, range facts.

import (
	"fmt"
	"go/types"
	"math/big"
	"sort"
	"strings"
)

// Preamble common to every query.
const basePreamble = `(set-option :produce-models true)
(set-logic ALL)
(declare-datatypes ((Path 0)) (((pnil) (pf (pfp Path) (pfi Int)) (pi (pip Path) (pii Int)))))
(declare-datatypes ((Ref 0)) (((mkref (rb Int) (rp Path)))))
(declare-datatypes ((Slice 0)) (((mkslice (sarr Ref) (soff Int) (slen Int) (scap Int)))))
(define-fun null () Ref (mkref 0 pnil))
(define-fun fld ((r Ref) (i Int)) Ref (mkref (rb r) (pf (rp r) i)))
(define-fun idx ((r Ref) (i Int)) Ref (mkref (rb r) (pi (rp r) i)))
(define-fun nilslice () Slice (mkslice null 0 0 0))
(declare-fun anchor (Ref) Bool)
(declare-fun sidx (Slice Int) Ref)
(assert (forall ((s Slice) (i Int)) (! (= (sidx s i) (idx (sarr s) (+ (soff s) i))) :pattern ((sidx s i)))))
(declare-sort Str 0)
(declare-fun strlen (Str) Int)
(declare-fun strcat (Str Str) Str)
(assert (forall ((a Str) (b Str)) (! (= (strlen (strcat a b)) (+ (strlen a) (strlen b))) :pattern ((strcat a b)))))
(assert (forall ((s Str)) (! (and (>= (strlen s) 0) (<= (strlen s) 9223372036854775807)) :pattern ((strlen s)))))
(declare-const emptystr Str)
(assert (= (strlen emptystr) 0))
(declare-sort Iface 0)
(declare-const iface_nil Iface)
(declare-fun typeof (Iface) Int)
(assert (= (typeof iface_nil) 0))
(declare-fun fresh_err (Iface) Bool)
(assert (not (fresh_err iface_nil)))
(declare-sort Func 0)
(declare-const func_nil Func)
(define-sort F64 () (_ FloatingPoint 11 53))
(define-fun u2f ((x Int)) F64 ((_ to_fp_unsigned 11 53) RNE ((_ int2bv 64) x)))
(define-fun i2f ((x Int)) F64 ((_ to_fp 11 53) RNE ((_ int2bv 64) x)))
(define-fun f2u ((x F64)) Int (bv2nat ((_ fp.to_ubv 64) RTZ x)))
(declare-fun u2f_u (Int) F64)
(declare-fun i2f_u (Int) F64)
(declare-fun f2u_u (F64) Int)
(declare-fun fadd_u (F64 F64) F64)
(declare-fun fsub_u (F64 F64) F64)
(declare-fun fmul_u (F64 F64) F64)
(declare-fun fdiv_u (F64 F64) F64)
(declare-fun flt_u (F64 F64) Bool)
(declare-fun fleq_u (F64 F64) Bool)
(define-fun fgt_u ((a F64) (b F64)) Bool (flt_u b a))
(define-fun fgeq_u ((a F64) (b F64)) Bool (fleq_u b a))
(define-fun go_div ((a Int) (b Int)) Int (ite (>= a 0) (ite (> b 0) (div a b) (- (div a (- b)))) (ite (> b 0) (- (div (- a) b)) (div (- a) (- b)))))
(define-fun go_rem ((a Int) (b Int)) Int (- a (* b (go_div a b))))
`

type sortInfo struct {
	name string
	decl string
}

// Sorts keeps the lazily declared sorts (struct datatypes, byte-array sorts).
type Sorts struct {
	structs  map[string]*structSort // key: canonical struct string
	order    []string               // declaration order (lines)
	bytesN   map[int64]bool
	ifaceIDs map[string]int
	decls    []string
	seenDecl map[string]bool
}

type structSort struct {
	name   string
	st     *types.Struct
	fields []string // accessor names
}

func NewSorts() *Sorts {
	return &Sorts{structs: map[string]*structSort{}, bytesN: map[int64]bool{}, ifaceIDs: map[string]int{}, seenDecl: map[string]bool{}}
}

func (s *Sorts) addDecl(d string) {
	if !s.seenDecl[d] {
		s.seenDecl[d] = true
		s.decls = append(s.decls, d)
	}
}

func isByteLike(t types.Type) bool {
	b, ok := t.Underlying().(*types.Basic)
	return ok && (b.Kind() == types.Uint8 || b.Kind() == types.Int8)
}

func sanitize(s string) string {
	var b strings.Builder
	for _, c := range s {
		if c >= 'a' && c <= 'z' || c >= 'A' && c <= 'Z' || c >= '0' && c <= '9' || c == '_' {
			b.WriteRune(c)
		} else {
			b.WriteRune('_')
		}
	}
	return b.String()
}

func (s *Sorts) structOf(t types.Type) *structSort {
	st := t.Underlying().(*types.Struct)
	key := st.String()
	if ss, ok := s.structs[key]; ok {
		return ss
	}
	name := ""
	if n, ok := t.(*types.Named); ok {
		name = "S_" + sanitize(n.Obj().Name())
	} else {
		name = "S_anon"
	}
	// uniquify
	base := name
	for i := 1; ; i++ {
		clash := false
		for _, o := range s.structs {
			if o.name == name {
				clash = true
			}
		}
		if !clash {
			break
		}
		name = fmt.Sprintf("%s_%d", base, i)
	}
	ss := &structSort{name: name, st: st}
	s.structs[key] = ss // register before recursing (self reference via pointers is Ref anyway)
	var fs []string
	for i := 0; i < st.NumFields(); i++ {
		fn := fmt.Sprintf("%s_f%d", name, i)
		ss.fields = append(ss.fields, fn)
		fs = append(fs, fmt.Sprintf("(%s %s)", fn, s.sortOf(st.Field(i).Type())))
	}
	s.addDecl(fmt.Sprintf("(declare-datatypes ((%s 0)) (((mk_%s %s))))", name, name, strings.Join(fs, " ")))
	return ss
}

func (s *Sorts) sortOf(t types.Type) string {
	switch u := t.Underlying().(type) {
	case *types.Basic:
		switch {
		case u.Info()&types.IsInteger != 0:
			return "Int"
		case u.Info()&types.IsBoolean != 0:
			return "Bool"
		case u.Info()&types.IsString != 0:
			return "Str"
		case u.Info()&types.IsFloat != 0:
			return "F64"
		case u.Kind() == types.UnsafePointer:
			return "Ref"
		case u.Kind() == types.UntypedNil:
			return "Ref"
		}
		return "Int"
	case *types.Pointer, *types.Map, *types.Chan:
		return "Ref"
	case *types.Slice:
		return "Slice"
	case *types.Signature:
		return "Func"
	case *types.Interface:
		return "Iface"
	case *types.Struct:
		return s.structOf(t).name
	case *types.Array:
		if isByteLike(u.Elem()) {
			n := u.Len()
			name := fmt.Sprintf("Bytes%d", n)
			if !s.bytesN[n] {
				s.bytesN[n] = true
				s.addDecl(fmt.Sprintf("(declare-sort %s 0)", name))
				s.addDecl(fmt.Sprintf("(declare-const zero_%s %s)", name, name))
			}
			return name
		}
		return fmt.Sprintf("(Array Int %s)", s.sortOf(u.Elem()))
	case *types.Tuple:
		return "TUPLE"
	}
	return "Int"
}

func (s *Sorts) ifaceID(t types.Type) int {
	k := t.String()
	if id, ok := s.ifaceIDs[k]; ok {
		return id
	}
	id := len(s.ifaceIDs) + 1
	s.ifaceIDs[k] = id
	return id
}

// zero value term of a type
func (s *Sorts) zero(t types.Type) string {
	switch u := t.Underlying().(type) {
	case *types.Basic:
		switch {
		case u.Info()&types.IsInteger != 0:
			return "0"
		case u.Info()&types.IsBoolean != 0:
			return "false"
		case u.Info()&types.IsString != 0:
			return "emptystr"
		case u.Info()&types.IsFloat != 0:
			return "(_ +zero 11 53)"
		}
		return "null"
	case *types.Pointer, *types.Map, *types.Chan:
		return "null"
	case *types.Slice:
		return "nilslice"
	case *types.Signature:
		return "func_nil"
	case *types.Interface:
		return "iface_nil"
	case *types.Struct:
		ss := s.structOf(t)
		if len(ss.fields) == 0 {
			return "mk_" + ss.name
		}
		var fs []string
		for i := 0; i < u.NumFields(); i++ {
			fs = append(fs, s.zero(u.Field(i).Type()))
		}
		return fmt.Sprintf("(mk_%s %s)", ss.name, strings.Join(fs, " "))
	case *types.Array:
		if isByteLike(u.Elem()) {
			s.sortOf(t)
			return fmt.Sprintf("zero_Bytes%d", u.Len())
		}
		return fmt.Sprintf("((as const (Array Int %s)) %s)", s.sortOf(u.Elem()), s.zero(u.Elem()))
	}
	return "0"
}

func intRange(t types.Type) (lo, hi *big.Int, ok bool) {
	b, isB := t.Underlying().(*types.Basic)
	if !isB || b.Info()&types.IsInteger == 0 {
		return nil, nil, false
	}
	bits := 64
	signed := true
	switch b.Kind() {
	case types.Int8:
		bits = 8
	case types.Int16:
		bits = 16
	case types.Int32:
		bits = 32
	case types.Int64, types.Int:
		bits = 64
	case types.Uint8:
		bits, signed = 8, false
	case types.Uint16:
		bits, signed = 16, false
	case types.Uint32:
		bits, signed = 32, false
	case types.Uint64, types.Uint, types.Uintptr:
		bits, signed = 64, false
	case types.UntypedInt, types.UntypedRune:
		return nil, nil, false
	}
	one := big.NewInt(1)
	if signed {
		hi = new(big.Int).Sub(new(big.Int).Lsh(one, uint(bits-1)), one)
		lo = new(big.Int).Neg(new(big.Int).Lsh(one, uint(bits-1)))
	} else {
		hi = new(big.Int).Sub(new(big.Int).Lsh(one, uint(bits)), one)
		lo = big.NewInt(0)
	}
	return lo, hi, true
}

func smtInt(v *big.Int) string {
	if v.Sign() < 0 {
		return "(- " + new(big.Int).Neg(v).String() + ")"
	}
	return v.String()
}

// rangeFact returns an SMT formula stating that term (of Go type t) is a
// well-typed value (integer ranges, non-negative lengths), or "" if none.
func (s *Sorts) rangeFact(t types.Type, term string) string {
	switch u := t.Underlying().(type) {
	case *types.Basic:
		if lo, hi, ok := intRange(t); ok {
			return fmt.Sprintf("(and (<= %s %s) (<= %s %s))", smtInt(lo), term, term, smtInt(hi))
		}
	case *types.Slice:
		return fmt.Sprintf("(and (<= 0 (slen %s)) (<= (slen %s) (scap %s)) (<= (scap %s) 9223372036854775807) (<= 0 (soff %s)) (=> (= (sarr %s) null) (= (scap %s) 0)))", term, term, term, term, term, term, term)
	case *types.Struct:
		ss := s.structOf(t)
		var fs []string
		for i := 0; i < u.NumFields(); i++ {
			if f := s.rangeFact(u.Field(i).Type(), fmt.Sprintf("(%s %s)", ss.fields[i], term)); f != "" {
				fs = append(fs, f)
			}
		}
		if len(fs) == 0 {
			return ""
		}
		sort.Strings(fs)
		return "(and " + strings.Join(fs, " ") + ")"
	}
	return ""
}
