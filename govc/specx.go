package main

// Translation of spec expressions to SMT terms in a program state.

import (
	"fmt"
	"go/constant"
	"go/token"
	"go/types"
	"math/big"
	"sort"
	"strings"

	"golang.org/x/tools/go/ssa"
)

// SType: type of a spec term.
type SType struct {
	Go   types.Type // non-nil for Go-typed terms
	Kind string     // "go" "int" "bool" "map" "set" "nil" "pkg"
	K, V *SType
	Pkg  *types.Package
}

var (
	stInt  = &SType{Kind: "int"}
	stBool = &SType{Kind: "bool"}
	stNil  = &SType{Kind: "nil"}
)

func goT(t types.Type) *SType { return &SType{Kind: "go", Go: t} }

func (t *SType) isInt() bool {
	if t.Kind == "int" {
		return true
	}
	if t.Kind == "go" {
		b, ok := t.Go.Underlying().(*types.Basic)
		return ok && b.Info()&types.IsInteger != 0
	}
	return false
}

type tv struct {
	t   string
	ty  *SType
	// addressable Go lvalue: ref + tag for loading
	ref string
	// for pointer values handed in by a caller: heap tag of the pointed-to cell (field of a struct)
	dtag string
}

type Env struct {
	g    *Gen
	sc   *Script
	eng  *Engine
	st   *State
	old  *State
	vars map[string]tv
	pkg  *types.Package
	// heap parameterisation for spec-func bodies: if non-nil, tag reads go through this map
	heapParams map[string]string
	usedTags   map[string]bool
	// renamed-local recovery: loop-carried values not referred to by name in the invariants
	spare []tv
	// this environment binds locals of the function under contract (loop invariants, site contracts): the types of the names
	// it resolves are recorded, and a missing name may be re-bound by type
	ownLocals bool
}

func (e *Env) child() *Env {
	n := *e
	n.vars = map[string]tv{}
	for k, v := range e.vars {
		n.vars[k] = v
	}
	return &n
}

func (e *Env) sortOfS(t *SType) string {
	switch t.Kind {
	case "int":
		return "Int"
	case "bool":
		return "Bool"
	case "map":
		return fmt.Sprintf("(Array %s %s)", e.sortOfS(t.K), e.sortOfS(t.V))
	case "set":
		return fmt.Sprintf("(Array %s Bool)", e.sortOfS(t.K))
	case "go":
		return e.sc.sorts.sortOf(t.Go)
	}
	return "Int"
}

// resolveType turns a textual spec type into an SType.
func (e *Env) resolveType(s string) (*SType, error) {
	s = strings.TrimSpace(s)
	switch {
	case s == "int":
		return stInt, nil
	case s == "bool":
		return stBool, nil
	case strings.HasPrefix(s, "map["):
		depth := 0
		for i, c := range s {
			if c == '[' {
				depth++
			} else if c == ']' {
				depth--
				if depth == 0 {
					k, err := e.resolveType(s[4:i])
					if err != nil {
						return nil, err
					}
					v, err := e.resolveType(s[i+1:])
					if err != nil {
						return nil, err
					}
					return &SType{Kind: "map", K: k, V: v}, nil
				}
			}
		}
	case strings.HasPrefix(s, "gomap["):
		gt, err := e.eng.resolveGoType(s[2:], e.pkg)
		if err != nil {
			return nil, err
		}
		return goT(gt), nil
	case strings.HasPrefix(s, "set["):
		k, err := e.resolveType(s[4 : len(s)-1])
		if err != nil {
			return nil, err
		}
		return &SType{Kind: "set", K: k}, nil
	}
	gt, err := e.eng.resolveGoType(s, e.pkg)
	if err != nil {
		return nil, err
	}
	return goT(gt), nil
}

func (e *Env) memTag(tag string) string {
	if e.heapParams != nil {
		e.usedTags[tag] = true
		return "H_" + sanitize(tag)
	}
	return e.sc.lookup(e.st, tag)
}

// formula translates e into a Bool term.
func (e *Env) formula(x Expr) (string, error) {
	v, err := e.eval(x)
	if err != nil {
		return "", err
	}
	if e.sortOfS(v.ty) != "Bool" {
		return "", fmt.Errorf("%s is not boolean", x)
	}
	return v.t, nil
}

func (e *Env) load(ref string, t types.Type, tag string) string {
	g := e.g
	switch u := t.Underlying().(type) {
	case *types.Struct:
		ss := e.sc.sorts.structOf(t)
		if u.NumFields() == 0 {
			return "mk_" + ss.name
		}
		var fs []string
		for i := 0; i < u.NumFields(); i++ {
			fs = append(fs, e.load(fmt.Sprintf("(fld %s %d)", ref, i), u.Field(i).Type(), g.fieldTag(t, i)))
		}
		return fmt.Sprintf("(mk_%s %s)", ss.name, strings.Join(fs, " "))
	}
	if tag == "" {
		tag = g.cellTag(t)
	}
	return fmt.Sprintf("(select %s %s)", e.memTag(tag), ref)
}

func derefType(t types.Type) (types.Type, bool) {
	if p, ok := t.Underlying().(*types.Pointer); ok {
		return p.Elem(), true
	}
	return t, false
}

func (e *Env) eval(x Expr) (tv, error) {
	switch n := x.(type) {
	case *ELit:
		switch n.Val {
		case "true", "false":
			return tv{t: n.Val, ty: stBool}, nil
		case "nil":
			return tv{t: "null", ty: stNil}, nil
		}
		v, ok := new(big.Int).SetString(n.Val, 0)
		if !ok {
			return tv{}, fmt.Errorf("bad literal %s", n.Val)
		}
		return tv{t: smtInt(v), ty: stInt}, nil
	case *EStr:
		return tv{t: e.sc.strLit(n.Val), ty: goT(types.Typ[types.String])}, nil
	case *EIdent:
		return e.ident(n.Name)
	case *EOld:
		if e.old == nil {
			return e.eval(n.X)
		}
		o := *e
		o.st = e.old
		return o.eval(n.X)
	case *EUn:
		v, err := e.eval(n.X)
		if err != nil {
			return tv{}, err
		}
		if n.Op == "!" {
			return tv{t: "(not " + v.t + ")", ty: stBool}, nil
		}
		if n.Op == "*" {
			if v.ty.Kind != "go" {
				return tv{}, fmt.Errorf("dereference of non-pointer %s", n.X)
			}
			pt, ok := v.ty.Go.Underlying().(*types.Pointer)
			if !ok {
				return tv{}, fmt.Errorf("dereference of non-pointer %s", n.X)
			}
			return tv{t: e.load(v.t, pt.Elem(), v.dtag), ty: goT(pt.Elem()), ref: v.t}, nil
		}
		return tv{t: "(- " + v.t + ")", ty: stInt}, nil
	case *ECond:
		c, err := e.formula(n.C)
		if err != nil {
			return tv{}, err
		}
		a, err := e.eval(n.A)
		if err != nil {
			return tv{}, err
		}
		b, err := e.eval(n.B)
		if err != nil {
			return tv{}, err
		}
		a, b = e.unifyNil(a, b)
		return tv{t: fmt.Sprintf("(ite %s %s %s)", c, a.t, b.t), ty: a.ty}, nil
	case *EBin:
		return e.bin(n)
	case *EQuant:
		c := e.child()
		var bs []string
		for _, b := range n.Vars {
			ty, err := e.resolveType(b.Type)
			if err != nil {
				return tv{}, err
			}
			nm := fmt.Sprintf("q_%s", b.Name)
			c.vars[b.Name] = tv{t: nm, ty: ty}
			bs = append(bs, fmt.Sprintf("(%s %s)", nm, e.sortOfS(ty)))
		}
		body, err := c.formula(n.Body)
		if err != nil {
			return tv{}, err
		}
		// range facts for Go-typed integer binders are added as guards
		var guards []string
		for _, b := range n.Vars {
			v := c.vars[b.Name]
			if v.ty.Kind == "go" {
				if f := e.sc.sorts.rangeFact(v.ty.Go, v.t); f != "" {
					guards = append(guards, f)
				}
			}
		}
		q := "exists"
		if n.Forall {
			q = "forall"
			if len(guards) > 0 {
				body = fmt.Sprintf("(=> (and %s) %s)", strings.Join(guards, " "), body)
			}
		} else if len(guards) > 0 {
			body = fmt.Sprintf("(and %s %s)", strings.Join(guards, " "), body)
		}
		return tv{t: fmt.Sprintf("(%s (%s) %s)", q, strings.Join(bs, " "), body), ty: stBool}, nil
	case *ESel:
		return e.sel(n)
	case *EIndex:
		return e.index(n)
	case *ECall:
		return e.call(n)
	}
	return tv{}, fmt.Errorf("unsupported expression %s", x)
}

func (e *Env) unifyNil(a, b tv) (tv, tv) {
	if a.ty.Kind == "nil" && b.ty.Kind == "go" {
		a = tv{t: e.sc.sorts.zero(b.ty.Go), ty: b.ty}
	}
	if b.ty.Kind == "nil" && a.ty.Kind == "go" {
		b = tv{t: e.sc.sorts.zero(a.ty.Go), ty: a.ty}
	}
	return a, b
}

func (e *Env) bin(n *EBin) (tv, error) {
	switch n.Op {
	case "&&", "||", "==>", "<==>":
		a, err := e.formula(n.L)
		if err != nil {
			return tv{}, err
		}
		b, err := e.formula(n.R)
		if err != nil {
			return tv{}, err
		}
		op := map[string]string{"&&": "and", "||": "or", "==>": "=>", "<==>": "="}[n.Op]
		return tv{t: fmt.Sprintf("(%s %s %s)", op, a, b), ty: stBool}, nil
	}
	a, err := e.eval(n.L)
	if err != nil {
		return tv{}, err
	}
	b, err := e.eval(n.R)
	if err != nil {
		return tv{}, err
	}
	switch n.Op {
	case "==", "!=":
		a, b = e.unifyNil(a, b)
		sa, sb := e.sortOfS(a.ty), e.sortOfS(b.ty)
		if sa != sb {
			return tv{}, fmt.Errorf("comparison of different sorts %s (%s) and %s (%s)", n.L, sa, n.R, sb)
		}
		eq := fmt.Sprintf("(= %s %s)", a.t, b.t)
		if sa == "Slice" && (strings.Contains(a.t, "nilslice") || strings.Contains(b.t, "nilslice")) {
			o := a.t
			if a.t == "nilslice" {
				o = b.t
			}
			eq = fmt.Sprintf("(= (sarr %s) null)", o)
		}
		if sa == "F64" {
			eq = fmt.Sprintf("(fp.eq %s %s)", a.t, b.t)
		}
		if n.Op == "!=" {
			eq = "(not " + eq + ")"
		}
		return tv{t: eq, ty: stBool}, nil
	case "<", "<=", ">", ">=":
		if e.sortOfS(a.ty) == "F64" {
			op := map[string]string{"<": "fp.lt", "<=": "fp.leq", ">": "fp.gt", ">=": "fp.geq"}[n.Op]
			if e.g != nil && e.g.ct != nil && e.g.ct.FloatAbs {
				op = map[string]string{"<": "flt_u", "<=": "fleq_u", ">": "fgt_u", ">=": "fgeq_u"}[n.Op]
			}
			return tv{t: fmt.Sprintf("(%s %s %s)", op, a.t, b.t), ty: stBool}, nil
		}
		return tv{t: fmt.Sprintf("(%s %s %s)", n.Op, a.t, b.t), ty: stBool}, nil
	case "+", "-", "*":
		if e.sortOfS(a.ty) == "F64" {
			if e.g != nil && e.g.ct != nil && e.g.ct.FloatAbs {
				op := map[string]string{"+": "fadd_u", "-": "fsub_u", "*": "fmul_u"}[n.Op]
				return tv{t: fmt.Sprintf("(%s %s %s)", op, a.t, b.t), ty: a.ty}, nil
			}
			op := map[string]string{"+": "fp.add", "-": "fp.sub", "*": "fp.mul"}[n.Op]
			return tv{t: fmt.Sprintf("(%s RNE %s %s)", op, a.t, b.t), ty: a.ty}, nil
		}
		return tv{t: fmt.Sprintf("(%s %s %s)", n.Op, a.t, b.t), ty: stInt}, nil
	case "/":
		return tv{t: fmt.Sprintf("(div %s %s)", a.t, b.t), ty: stInt}, nil
	case "%":
		return tv{t: fmt.Sprintf("(mod %s %s)", a.t, b.t), ty: stInt}, nil
	}
	return tv{}, fmt.Errorf("operator %s", n.Op)
}

func (e *Env) ident(name string) (tv, error) {
	if v, ok := e.vars[name]; ok {
		e.recordName(name, v)
		return v, nil
	}
	// a name that was a local of this function on the pinned tree: look for the renamed local before anything global
	if v, ok := e.rebindByType(name); ok {
		return v, nil
	}
	// ghost variable
	if gv, ok := e.eng.db.GhostVars[name]; ok {
		ty, err := e.withPkg(gv.Pkg).resolveType(gv.Type)
		if err != nil {
			return tv{}, err
		}
		tag := "G!" + name
		e.sc.regTag(tag, e.sortOfS(ty))
		return tv{t: e.memTag(tag), ty: ty}, nil
	}
	switch name {
	case "MaxInt64":
		return tv{t: "9223372036854775807", ty: stInt}, nil
	case "MaxUint64":
		return tv{t: "18446744073709551615", ty: stInt}, nil
	case "MaxUint32":
		return tv{t: "4294967295", ty: stInt}, nil
	}
	// package-level object
	if e.pkg != nil {
		if obj := e.pkg.Scope().Lookup(name); obj != nil {
			return e.pkgObject(obj)
		}
		for _, imp := range e.pkg.Imports() {
			if imp.Name() == name {
				return tv{ty: &SType{Kind: "pkg", Pkg: imp}}, nil
			}
		}
	}
	if p := e.eng.pkgByName(name); p != nil {
		return tv{ty: &SType{Kind: "pkg", Pkg: p}}, nil
	}
	if len(e.spare) == 1 {
		// a local named in the invariant no longer exists; exactly one loop-carried value is unnamed: re-bind
		e.g.notes = append(e.g.notes, fmt.Sprintf("invariant identifier %q re-bound to the only unnamed loop-carried value", name))
		return e.spare[0], nil
	}
	if len(e.spare) > 1 {
		// several unnamed loop-carried values: a renamed counter is the only integer among them
		var ints []tv
		for _, v := range e.spare {
			if e.sortOfS(v.ty) == "Int" {
				ints = append(ints, v)
			}
		}
		if len(ints) == 1 {
			e.g.notes = append(e.g.notes, fmt.Sprintf("invariant identifier %q re-bound to the only unnamed integer loop-carried value", name))
			return ints[0], nil
		}
	}
	return tv{}, fmt.Errorf("unknown identifier %q", name)
}

// recordName notes the Go type of a local that a contract names (kept in baseline/names.json when baselines are updated).
func (e *Env) recordName(name string, v tv) {
	if !e.ownLocals || e.g == nil || e.g.fn == nil || v.ty == nil || v.ty.Kind != "go" || v.ty.Go == nil || e.eng.seenNames == nil {
		return
	}
	fn := e.g.rootFn().String()
	if e.eng.seenNames[fn] == nil {
		e.eng.seenNames[fn] = map[string]string{}
	}
	e.eng.seenNames[fn][name] = types.TypeString(v.ty.Go, nil)
}

// rebindByType: the contract names a local that no longer exists under that name.  If the pinned tree recorded its Go type
// and exactly one visible local that no clause of the contract names has that type, it is the renamed one.
func (e *Env) rebindByType(name string) (tv, bool) {
	if !e.ownLocals || e.g == nil || e.g.fn == nil || e.eng.nameTypes == nil {
		return tv{}, false
	}
	want := e.eng.nameTypes[e.g.rootFn().String()][name]
	if want == "" {
		return tv{}, false
	}
	used := e.g.contractIdents()
	var cand []string
	for n, v := range e.vars {
		if used[n] || v.ty == nil || v.ty.Kind != "go" || v.ty.Go == nil {
			continue
		}
		if strings.HasPrefix(n, "arg") || n == "iter" || strings.HasPrefix(n, "iter") || n == "result" || strings.HasPrefix(n, "result") || n == "err" || n == "visited" || n == "ranged" {
			continue
		}
		if types.TypeString(v.ty.Go, nil) == want {
			cand = append(cand, n)
		}
	}
	if len(cand) != 1 {
		return tv{}, false
	}
	e.g.notes = append(e.g.notes, fmt.Sprintf("contract identifier %q re-bound to the renamed local %q (the only unnamed local of type %s)", name, cand[0], want))
	return e.vars[cand[0]], true
}

func (e *Env) withPkg(path string) *Env {
	if path == "" {
		return e
	}
	n := *e
	if p := e.eng.typesPkg(path); p != nil {
		n.pkg = p
	}
	return &n
}

func (e *Env) pkgObject(obj types.Object) (tv, error) {
	switch o := obj.(type) {
	case *types.Const:
		switch o.Val().Kind() {
		case constant.Int:
			v, _ := new(big.Int).SetString(o.Val().ExactString(), 10)
			return tv{t: smtInt(v), ty: goT(o.Type())}, nil
		case constant.Float:
			if iv := constant.ToInt(o.Val()); iv.Kind() == constant.Int {
				v, _ := new(big.Int).SetString(iv.ExactString(), 10)
				return tv{t: smtInt(v), ty: stInt}, nil
			}
			return tv{t: floatLit(o.Val()), ty: goT(types.Typ[types.Float64])}, nil
		case constant.Bool:
			return tv{t: fmt.Sprint(constant.BoolVal(o.Val())), ty: stBool}, nil
		case constant.String:
			return tv{t: e.sc.strLit(constant.StringVal(o.Val())), ty: goT(types.Typ[types.String])}, nil
		}
	case *types.Var:
		gl := e.eng.globalOf(o)
		if gl == nil {
			return tv{}, fmt.Errorf("no SSA global for %s", o.Name())
		}
		if e.eng.constGlobal[gl] {
			return tv{t: e.eng.constGlobalTerm(e.g, gl), ty: goT(o.Type())}, nil
		}
		ref := e.g.globalRef(gl)
		return tv{t: e.load(ref, o.Type(), ""), ty: goT(o.Type()), ref: ref}, nil
	}
	return tv{}, fmt.Errorf("unsupported package object %s", obj)
}

func (e *Env) sel(n *ESel) (tv, error) {
	x, err := e.eval(n.X)
	if err != nil {
		return tv{}, err
	}
	if x.ty.Kind == "pkg" {
		obj := x.ty.Pkg.Scope().Lookup(n.F)
		if obj == nil {
			return tv{}, fmt.Errorf("%s not found in package %s", n.F, x.ty.Pkg.Path())
		}
		return e.pkgObject(obj)
	}
	if x.ty.Kind != "go" {
		return tv{}, fmt.Errorf("selector on non-Go value %s", n.X)
	}
	base, isPtr := derefType(x.ty.Go)
	// ghost field?
	if gf := e.eng.ghostField(base, n.F); gf != nil {
		ty, err := e.resolveType(gf.Type)
		if err != nil {
			return tv{}, err
		}
		tag := "GF!" + sanitize(gf.Owner) + "!" + gf.Name
		e.sc.regTag(tag, fmt.Sprintf("(Array Ref %s)", e.sortOfS(ty)))
		ref := x.t
		if !isPtr {
			if x.ref == "" {
				return tv{}, fmt.Errorf("ghost field of non-addressable value %s", n.X)
			}
			ref = x.ref
		}
		return tv{t: fmt.Sprintf("(select %s %s)", e.memTag(tag), ref), ty: ty}, nil
	}
	st, ok := base.Underlying().(*types.Struct)
	if !ok {
		return tv{}, fmt.Errorf("selector %s on non-struct %s", n.F, base)
	}
	// find field (including promoted through embedded structs, one level)
	idx := -1
	for i := 0; i < st.NumFields(); i++ {
		if st.Field(i).Name() == n.F {
			idx = i
		}
	}
	if idx < 0 {
		return tv{}, fmt.Errorf("no field %s in %s", n.F, base)
	}
	ft := st.Field(idx).Type()
	if isPtr || x.ref != "" {
		ref := x.t
		if !isPtr {
			ref = x.ref
		}
		fref := fmt.Sprintf("(fld %s %d)", ref, idx)
		return tv{t: e.load(fref, ft, e.g.fieldTag(base, idx)), ty: goT(ft), ref: fref}, nil
	}
	ss := e.sc.sorts.structOf(base)
	return tv{t: fmt.Sprintf("(%s %s)", ss.fields[idx], x.t), ty: goT(ft)}, nil
}

func (e *Env) index(n *EIndex) (tv, error) {
	x, err := e.eval(n.X)
	if err != nil {
		return tv{}, err
	}
	i, err := e.eval(n.I)
	if err != nil {
		return tv{}, err
	}
	switch x.ty.Kind {
	case "map":
		return tv{t: fmt.Sprintf("(select %s %s)", x.t, i.t), ty: x.ty.V}, nil
	case "set":
		return tv{t: fmt.Sprintf("(select %s %s)", x.t, i.t), ty: stBool}, nil
	case "go":
		switch u := x.ty.Go.Underlying().(type) {
		case *types.Slice:
			ref := fmt.Sprintf("(sidx %s %s)", x.t, i.t)
			return tv{t: e.load(ref, u.Elem(), ""), ty: goT(u.Elem()), ref: ref}, nil
		case *types.Map:
			d, v, _ := e.g.mapTags(u)
			dom := fmt.Sprintf("(select (select %s %s) %s)", e.memTag(d), x.t, i.t)
			val := fmt.Sprintf("(select (select %s %s) %s)", e.memTag(v), x.t, i.t)
			return tv{t: fmt.Sprintf("(ite %s %s %s)", dom, val, e.sc.sorts.zero(u.Elem())), ty: goT(u.Elem())}, nil
		case *types.Array:
			if !isByteLike(u.Elem()) {
				return tv{t: fmt.Sprintf("(select %s %s)", x.t, i.t), ty: goT(u.Elem())}, nil
			}
		}
	}
	return tv{}, fmt.Errorf("cannot index %s", n.X)
}

func (e *Env) call(n *ECall) (tv, error) {
	args := func() ([]tv, error) {
		var as []tv
		for _, a := range n.Args {
			v, err := e.eval(a)
			if err != nil {
				return nil, err
			}
			as = append(as, v)
		}
		return as, nil
	}
	switch n.Fn {
	case "len", "cap":
		as, err := args()
		if err != nil {
			return tv{}, err
		}
		a := as[0]
		if a.ty.Kind == "go" {
			switch u := a.ty.Go.Underlying().(type) {
			case *types.Slice:
				if n.Fn == "cap" {
					return tv{t: fmt.Sprintf("(scap %s)", a.t), ty: stInt}, nil
				}
				// a slice value of the program has a non-negative length: stated for ground terms the clause reads from the
				// heap (the code learns the same fact when it loads the slice; a clause may be evaluated before that load)
				if e.heapParams == nil && e.sc != nil && e.st != nil && !strings.Contains(a.t, "q_") && strings.Contains(a.t, "select") {
					if e.sc.lenFacts == nil {
						e.sc.lenFacts = map[string]bool{}
					}
					if !e.sc.lenFacts[a.t] {
						e.sc.lenFacts[a.t] = true
						e.sc.emit("(assert (>= (slen %s) 0))", a.t)
					}
				}
				return tv{t: fmt.Sprintf("(slen %s)", a.t), ty: stInt}, nil
			case *types.Map:
				if e.heapParams != nil {
					_, _, l := e.g.mapTags(u)
					return tv{t: fmt.Sprintf("(select %s %s)", e.memTag(l), a.t), ty: stInt}, nil
				}
				return tv{t: e.g.mapLenOf(e.st, u, a.t), ty: stInt}, nil
			case *types.Basic:
				return tv{t: fmt.Sprintf("(strlen %s)", a.t), ty: stInt}, nil
			case *types.Array:
				return tv{t: fmt.Sprint(u.Len()), ty: stInt}, nil
			}
		}
		return tv{}, fmt.Errorf("len of %s", n.Args[0])
	case "dom":
		as, err := args()
		if err != nil {
			return tv{}, err
		}
		a := as[0]
		if a.ty.Kind == "go" {
			if mt, ok := a.ty.Go.Underlying().(*types.Map); ok {
				d, _, _ := e.g.mapTags(mt)
				return tv{t: fmt.Sprintf("(select %s %s)", e.memTag(d), a.t), ty: &SType{Kind: "set", K: goT(mt.Key())}}, nil
			}
		}
		return tv{}, fmt.Errorf("dom of non-map")
	case "vals":
		as, err := args()
		if err != nil {
			return tv{}, err
		}
		a := as[0]
		if a.ty.Kind == "go" {
			if mt, ok := a.ty.Go.Underlying().(*types.Map); ok {
				_, v, _ := e.g.mapTags(mt)
				return tv{t: fmt.Sprintf("(select %s %s)", e.memTag(v), a.t), ty: &SType{Kind: "map", K: goT(mt.Key()), V: goT(mt.Elem())}}, nil
			}
		}
		return tv{}, fmt.Errorf("vals of non-map")
	case "upd":
		as, err := args()
		if err != nil {
			return tv{}, err
		}
		return tv{t: fmt.Sprintf("(store %s %s %s)", as[0].t, as[1].t, as[2].t), ty: as[0].ty}, nil
	case "msum":
		// msum(v, S): sum of v[k] over the finite set S (ghost; axioms below are the defining equations)
		as, err := args()
		if err != nil {
			return tv{}, err
		}
		if as[0].ty.Kind != "map" || as[1].ty.Kind != "set" {
			return tv{}, fmt.Errorf("msum(vals, set) expected")
		}
		ks := e.sortOfS(as[0].ty.K)
		fn := "msum_" + sanitize(ks)
		if !e.sc.declared[fn] {
			e.sc.declared[fn] = true
			e.sc.emit("(declare-fun %s ((Array %s Int) (Array %s Bool)) Int)", fn, ks, ks)
			e.sc.emit("(declare-fun %s_wit ((Array %s Int) (Array %s Bool)) %s)", fn, ks, ks, ks)
			e.sc.emit("(declare-fun %s_dif ((Array %s Bool) (Array %s Bool)) %s)", fn, ks, ks, ks)
			// empty set: a non-zero sum has a member
			e.sc.emit("(assert (forall ((v (Array %s Int)) (s (Array %s Bool))) (! (or (= (%s v s) 0) (select s (%s_wit v s))) :pattern ((%s v s)))))", ks, ks, fn, fn, fn)
			// insertion
			e.sc.emit("(assert (forall ((v (Array %s Int)) (s (Array %s Bool)) (k %s)) (! (=> (not (select s k)) (= (%s v (store s k true)) (+ (%s v s) (select v k)))) :pattern ((%s v (store s k true))))))", ks, ks, ks, fn, fn, fn)
			// point update of the values
			e.sc.emit("(assert (forall ((v (Array %s Int)) (s (Array %s Bool)) (k %s) (x Int)) (! (= (%s (store v k x) s) (+ (%s v s) (ite (select s k) (- x (select v k)) 0))) :pattern ((%s (store v k x) s)))))", ks, ks, ks, fn, fn, fn)
			// extensionality in the set argument (skolemised)
			e.sc.emit("(assert (forall ((v (Array %s Int)) (s1 (Array %s Bool)) (s2 (Array %s Bool))) (! (or (= (%s v s1) (%s v s2)) (not (= (select s1 (%s_dif s1 s2)) (select s2 (%s_dif s1 s2))))) :pattern ((%s v s1) (%s v s2)))))", ks, ks, ks, fn, fn, fn, fn, fn, fn)
			// monotone in the set for non-negative values (skolemised)
			e.sc.emit("(declare-fun %s_sub ((Array %s Bool) (Array %s Bool)) %s)", fn, ks, ks, ks)
			e.sc.emit("(declare-fun %s_neg ((Array %s Int)) %s)", fn, ks, ks)
			e.sc.emit("(assert (forall ((v (Array %s Int)) (s1 (Array %s Bool)) (s2 (Array %s Bool))) (! (or (<= (%s v s1) (%s v s2)) (and (select s1 (%s_sub s1 s2)) (not (select s2 (%s_sub s1 s2)))) (< (select v (%s_neg v)) 0)) :pattern ((%s v s1) (%s v s2)))))", ks, ks, ks, fn, fn, fn, fn, fn, fn, fn)
			// non-negativity and member bound for non-negative values
			e.sc.emit("(assert (forall ((v (Array %s Int)) (s (Array %s Bool))) (! (or (>= (%s v s) 0) (< (select v (%s_neg v)) 0)) :pattern ((%s v s)))))", ks, ks, fn, fn, fn)
			e.sc.emit("(assert (forall ((v (Array %s Int)) (s (Array %s Bool)) (k %s)) (! (or (not (select s k)) (<= (select v k) (%s v s)) (< (select v (%s_neg v)) 0)) :pattern ((%s v s) (select s k)))))", ks, ks, ks, fn, fn, fn)
			e.g.assumptions["ghost axioms for finite sums over map domains (msum: empty set, insertion, point update, set extensionality, monotonicity)"] = true
		}
		return tv{t: fmt.Sprintf("(%s %s %s)", fn, as[0].t, as[1].t), ty: stInt}, nil
	case "fresh":
		as, err := args()
		if err != nil {
			return tv{}, err
		}
		fr := e.g.oldFrontier
		if e.old != nil {
			fr = e.sc.lookup(e.old, "!frontier")
		}
		r := as[0].t
		if e.sortOfS(as[0].ty) == "Slice" {
			r = fmt.Sprintf("(sarr %s)", r)
		}
		return tv{t: fmt.Sprintf("(>= (rb %s) %s)", r, fr), ty: stBool}, nil
	case "concat":
		as, err := args()
		if err != nil {
			return tv{}, err
		}
		if len(as) != 2 {
			return tv{}, fmt.Errorf("concat takes two strings")
		}
		return tv{t: fmt.Sprintf("(strcat %s %s)", as[0].t, as[1].t), ty: as[0].ty}, nil
	case "sameobj":
		// sameobj(a, b): the two pointers / slices point into the same allocated object
		as, err := args()
		if err != nil {
			return tv{}, err
		}
		if len(as) != 2 {
			return tv{}, fmt.Errorf("sameobj takes two arguments")
		}
		rs := make([]string, 2)
		for i := range as {
			rs[i] = as[i].t
			if e.sortOfS(as[i].ty) == "Slice" {
				rs[i] = fmt.Sprintf("(sarr %s)", rs[i])
			}
		}
		return tv{t: fmt.Sprintf("(= (rb %s) (rb %s))", rs[0], rs[1]), ty: stBool}, nil
	case "min", "max":
		as, err := args()
		if err != nil {
			return tv{}, err
		}
		op := "<="
		if n.Fn == "max" {
			op = ">="
		}
		return tv{t: fmt.Sprintf("(ite (%s %s %s) %s %s)", op, as[0].t, as[1].t, as[0].t, as[1].t), ty: stInt}, nil
	case "int", "int64", "uint64", "uint32", "int32", "uint8", "uint":
		as, err := args()
		if err != nil {
			return tv{}, err
		}
		return tv{t: as[0].t, ty: stInt}, nil
	case "wrap_int32", "wrap_int64", "wrap_uint32", "wrap_uint64", "wrap_uint8", "wrap_int":
		as, err := args()
		if err != nil {
			return tv{}, err
		}
		kinds := map[string]types.BasicKind{"wrap_int32": types.Int32, "wrap_int64": types.Int64, "wrap_uint32": types.Uint32, "wrap_uint64": types.Uint64, "wrap_uint8": types.Uint8, "wrap_int": types.Int}
		return tv{t: wrapTo(as[0].t, types.Typ[kinds[n.Fn]]), ty: stInt}, nil
	case "bitor", "bitand":
		as, err := args()
		if err != nil {
			return tv{}, err
		}
		return tv{t: e.g.bitOp(map[string]string{"bitor": "or", "bitand": "and"}[n.Fn], as[0].t, as[1].t), ty: stInt}, nil
	case "float64":
		as, err := args()
		if err != nil {
			return tv{}, err
		}
		if e.g != nil && e.g.ct != nil && e.g.ct.FloatAbs {
			return tv{t: fmt.Sprintf("(u2f_u %s)", as[0].t), ty: goT(types.Typ[types.Float64])}, nil
		}
		return tv{t: fmt.Sprintf("(u2f %s)", as[0].t), ty: goT(types.Typ[types.Float64])}, nil
	case "f64":
		// f64("0.25") literal
		if s, ok := n.Args[0].(*EStr); ok {
			return tv{t: floatLit(constant.MakeFromLiteral(s.Val, token.FLOAT, 0)), ty: goT(types.Typ[types.Float64])}, nil
		}
	case "typeis":
		as, err := e.eval(n.Args[0])
		if err != nil {
			return tv{}, err
		}
		ts, ok := n.Args[1].(*EStr)
		if !ok {
			return tv{}, fmt.Errorf("typeis needs a type string")
		}
		gt, err := e.eng.resolveGoType(ts.Val, e.pkg)
		if err != nil {
			return tv{}, err
		}
		id := e.sc.sorts.ifaceID(gt)
		e.g.box(gt, e.sc.sorts.zero(gt))
		return tv{t: fmt.Sprintf("(= (typeof %s) %d)", as.t, id), ty: stBool}, nil
	case "unbox":
		as, err := e.eval(n.Args[0])
		if err != nil {
			return tv{}, err
		}
		ts, ok := n.Args[1].(*EStr)
		if !ok {
			return tv{}, fmt.Errorf("unbox needs a type string")
		}
		gt, err := e.eng.resolveGoType(ts.Val, e.pkg)
		if err != nil {
			return tv{}, err
		}
		id := e.sc.sorts.ifaceID(gt)
		e.g.box(gt, e.sc.sorts.zero(gt))
		return tv{t: fmt.Sprintf("(unbox_%d %s)", id, as.t), ty: goT(gt)}, nil
	case "calls":
		ts, ok := n.Args[0].(*EStr)
		if !ok {
			return tv{}, fmt.Errorf("calls needs a function name string")
		}
		tag := "N!" + ts.Val
		e.sc.regTag(tag, "Int")
		return tv{t: e.memTag(tag), ty: stInt}, nil
	case "f2u":
		as, err := args()
		if err != nil {
			return tv{}, err
		}
		return tv{t: fmt.Sprintf("(f2u %s)", as[0].t), ty: stInt}, nil
	case "fresherr":
		as, err := args()
		if err != nil {
			return tv{}, err
		}
		return tv{t: fmt.Sprintf("(fresh_err %s)", as[0].t), ty: stBool}, nil
	case "zeroval":
		ts, ok := n.Args[0].(*EStr)
		if !ok {
			return tv{}, fmt.Errorf("zeroval needs a type string")
		}
		gt, err := e.eng.resolveGoType(ts.Val, e.pkg)
		if err != nil {
			return tv{}, err
		}
		return tv{t: e.sc.sorts.zero(gt), ty: goT(gt)}, nil
	case "initval":
		// initval(pkg.Global): the value stored by the package initialiser
		if s, ok := n.Args[0].(*ESel); ok {
			return e.eng.initValue(e, s)
		}
	}
	// spec function
	if sf, ok := e.eng.db.SpecFuncs[n.Fn]; ok {
		as, err := args()
		if err != nil {
			return tv{}, err
		}
		return e.specCall(sf, as)
	}
	return tv{}, fmt.Errorf("unknown function %s in spec", n.Fn)
}

// specCall declares (once per script) the spec function with its heap tags as
// extra parameters and returns the application.
func (e *Env) specCall(sf *SpecFunc, args []tv) (tv, error) {
	info, err := e.eng.specFuncInfo(e, sf)
	if err != nil {
		return tv{}, err
	}
	if len(args) != len(sf.Params) {
		return tv{}, fmt.Errorf("spec func %s: %d args, want %d", sf.Name, len(args), len(sf.Params))
	}
	var as []string
	for i, a := range args {
		if a.ty.Kind == "nil" {
			a = tv{t: e.sc.sorts.zero(info.paramTypes[i].Go), ty: info.paramTypes[i]}
		}
		// an addressable value may be passed where a pointer is expected (implicit &)
		if pt := info.paramTypes[i]; pt.Kind == "go" && a.ty.Kind == "go" && a.ref != "" {
			if _, isPtr := pt.Go.Underlying().(*types.Pointer); isPtr {
				if _, argPtr := a.ty.Go.Underlying().(*types.Pointer); !argPtr {
					a = tv{t: a.ref, ty: pt}
				}
			}
		}
		as = append(as, a.t)
	}
	// Heap arguments: a version that agrees with an earlier one on all objects older than the function entry
	// is replaced by that earlier version when every reference argument is such an old object (frame rule for
	// heap-dependent spec functions; relies on the closed-heap facts: old objects only reach old objects).
	// reference arguments: their allocation ids decide how far back in the version chain the heap argument may be taken
	var argRbs []string
	if e.heapParams == nil {
		for i := range args {
			switch e.sortOfS(info.paramTypes[i]) {
			case "Ref":
				argRbs = append(argRbs, fmt.Sprintf("(rb %s)", as[i]))
			case "Slice":
				argRbs = append(argRbs, fmt.Sprintf("(rb (sarr %s))", as[i]))
			}
		}
	}
	for _, tag := range info.tags {
		cur := e.memTag(tag)
		if e.heapParams == nil && !strings.HasPrefix(tag, "G!") {
			// walk the chain  cur -> prev -> ... ; a step may be undone when every reference argument is older than all
			// objects the step wrote (closed heap: such arguments cannot reach the written objects)
			var build func(name string, depth int) string
			build = func(name string, depth int) string {
				stp, ok := e.sc.steps[name]
				if !ok || depth > 40 {
					return name
				}
				inner := build(stp.prev, depth+1)
				if len(argRbs) == 0 {
					return inner
				}
				var conds []string
				for _, a := range argRbs {
					for _, b := range stp.bounds {
						conds = append(conds, fmt.Sprintf("(< %s %s)", a, b))
					}
				}
				if len(conds) == 0 {
					return inner
				}
				return fmt.Sprintf("(ite (and %s) %s %s)", strings.Join(conds, " "), inner, name)
			}
			if nc := build(cur, 0); nc != cur {
				cur = nc
				e.g.assumptions["frame rule for heap-dependent spec functions: a write to an object allocated later than every reference argument does not change the function's value (closed heap)"] = true
			}
		}
		as = append(as, cur)
	}
	if len(as) == 0 {
		return tv{t: info.smtName, ty: info.ret}, nil
	}
	return tv{t: fmt.Sprintf("(%s %s)", info.smtName, strings.Join(as, " ")), ty: info.ret}, nil
}

type specFuncInfo struct {
	smtName    string
	paramTypes []*SType
	ret        *SType
	tags       []string
	busy       bool
}

func (eng *Engine) specFuncInfo(e *Env, sf *SpecFunc) (*specFuncInfo, error) {
	key := sf.Name
	cache := e.sc.specInfos()
	if inf, ok := cache[key]; ok {
		return inf, nil
	}
	inf := &specFuncInfo{smtName: "sf_" + sf.Name, busy: true}
	cache[key] = inf
	pe := e.withPkg(sf.Pkg)
	body := &Env{g: e.g, sc: e.sc, eng: eng, vars: map[string]tv{}, pkg: pe.pkg, heapParams: map[string]string{}, usedTags: map[string]bool{}}
	var params []string
	for _, p := range sf.Params {
		ty, err := pe.resolveType(p.Type)
		if err != nil {
			return nil, fmt.Errorf("spec func %s: %v", sf.Name, err)
		}
		inf.paramTypes = append(inf.paramTypes, ty)
		body.vars[p.Name] = tv{t: "a_" + p.Name, ty: ty}
		params = append(params, fmt.Sprintf("(a_%s %s)", p.Name, e.sortOfS(ty)))
	}
	ret, err := pe.resolveType(sf.Ret)
	if err != nil {
		return nil, err
	}
	inf.ret = ret
	if sf.Body == nil {
		var ps []string
		for _, t := range inf.paramTypes {
			ps = append(ps, e.sortOfS(t))
		}
		e.sc.emit("(declare-fun %s (%s) %s)", inf.smtName, strings.Join(ps, " "), e.sortOfS(ret))
		inf.busy = false
		return inf, nil
	}
	// two passes: first discover tags (recursion allowed: recursive calls use the tag list being built)
	// Pass 1 with a provisional empty tag list, iterate to fixpoint.
	for iter := 0; iter < 4; iter++ {
		body.usedTags = map[string]bool{}
		_, err := body.eval(sf.Body) // side definitions emitted by the probe are declarations only and are kept
		if err != nil {
			return nil, fmt.Errorf("spec func %s: %v", sf.Name, err)
		}
		var tags []string
		for t := range body.usedTags {
			tags = append(tags, t)
		}
		for _, t := range inf.tags {
			if !body.usedTags[t] {
				tags = append(tags, t)
			}
		}
		sort.Strings(tags)
		if strings.Join(tags, ",") == strings.Join(inf.tags, ",") {
			break
		}
		inf.tags = tags
	}
	bt, err := body.eval(sf.Body)
	if err != nil {
		return nil, err
	}
	for _, t := range inf.tags {
		params = append(params, fmt.Sprintf("(H_%s %s)", sanitize(t), e.sc.tagSort[t]))
	}
	rec := exprCalls(sf.Body, sf.Name)
	kw := "define-fun"
	if rec {
		kw = "define-fun-rec"
	}
	if sf.Opaque && len(params) > 0 && !rec {
		var sorts, names []string
		for _, p := range params {
			inner := strings.TrimSuffix(strings.TrimPrefix(p, "("), ")") // "(name sort)"
			sp := strings.Index(inner, " ")
			names = append(names, inner[:sp])
			sorts = append(sorts, strings.TrimSpace(inner[sp+1:]))
		}
		app := fmt.Sprintf("(%s %s)", inf.smtName, strings.Join(names, " "))
		e.sc.emit("(declare-fun %s (%s) %s)", inf.smtName, strings.Join(sorts, " "), e.sortOfS(ret))
		e.sc.emit("(assert (forall (%s) (! (= %s %s) :pattern (%s))))", strings.Join(params, " "), app, bt.t, app)
	} else if len(params) == 0 {
		e.sc.emit("(define-fun %s () %s %s)", inf.smtName, e.sortOfS(ret), bt.t)
	} else {
		e.sc.emit("(%s %s (%s) %s %s)", kw, inf.smtName, strings.Join(params, " "), e.sortOfS(ret), bt.t)
	}
	inf.busy = false
	return inf, nil
}

func exprCalls(x Expr, name string) bool {
	found := false
	var walk func(Expr)
	walk = func(x Expr) {
		switch n := x.(type) {
		case *ECall:
			if n.Fn == name {
				found = true
			}
			for _, a := range n.Args {
				walk(a)
			}
		case *EBin:
			walk(n.L)
			walk(n.R)
		case *EUn:
			walk(n.X)
		case *EOld:
			walk(n.X)
		case *ECond:
			walk(n.C)
			walk(n.A)
			walk(n.B)
		case *EQuant:
			walk(n.Body)
		case *ESel:
			walk(n.X)
		case *EIndex:
			walk(n.X)
			walk(n.I)
		}
	}
	walk(x)
	return found
}

func (sc *Script) specInfos() map[string]*specFuncInfo {
	if sc.sfInfos == nil {
		sc.sfInfos = map[string]*specFuncInfo{}
	}
	return sc.sfInfos
}

// ---------------------------------------------------------------------------
// environments for the different contract positions

func (g *Gen) baseEnv(st *State) *Env {
	e := &Env{g: g, sc: g.sc, eng: g.eng, st: st, old: g.entry, vars: map[string]tv{}}
	if g.fn.Pkg != nil {
		e.pkg = g.fn.Pkg.Pkg
	} else if g.fn.Parent() != nil && g.fn.Parent().Pkg != nil {
		e.pkg = g.fn.Parent().Pkg.Pkg
	}
	for _, p := range g.fn.Params {
		e.vars[p.Name()] = tv{t: g.val[p], ty: goT(p.Type())}
	}
	for _, fv := range g.fn.FreeVars {
		// free variables are pointers to the captured variable: expose the variable itself
		et := fv.Type().Underlying().(*types.Pointer).Elem()
		ref := g.val[fv]
		e.vars[fv.Name()] = tv{t: e.load(ref, et, ""), ty: goT(et), ref: ref}
	}
	if len(g.fn.FreeVars) > 0 {
		e.ownLocals = true // a closure's contract names captured locals of the enclosing function
	}
	return e
}

func (g *Gen) addLets(e *Env) {
	if g.ct == nil {
		return
	}
	for _, l := range g.ct.Lets {
		x, err := ParseExpr(l.Type)
		if err != nil {
			g.refusef("let %s: %v", l.Name, err)
			return
		}
		o := *e
		o.st = g.entry
		if g.entry == nil {
			o.st = e.st
		}
		v, err := o.eval(x)
		if err != nil {
			g.refusef("let %s: %v", l.Name, err)
			return
		}
		e.vars[l.Name] = v
	}
}

func (g *Gen) entryEnv(st *State) *Env {
	e := g.baseEnv(st)
	e.old = st
	g.entry = st
	g.addLets(e)
	return e
}

func (g *Gen) exitEnv(st *State, results []string) *Env {
	e := g.baseEnv(st)
	g.addLets(e)
	sig := g.fn.Signature
	bindResults(e, sig, results)
	return e
}

func bindResults(e *Env, sig *types.Signature, results []string) {
	rs := sig.Results()
	for i := 0; i < rs.Len() && i < len(results); i++ {
		r := rs.At(i)
		v := tv{t: results[i], ty: goT(r.Type())}
		if r.Name() != "" && r.Name() != "_" {
			e.vars[r.Name()] = v
		}
		e.vars[fmt.Sprintf("result%d", i)] = v
		if rs.Len() == 1 {
			e.vars["result"] = v
		}
		if i == rs.Len()-1 && r.Type().String() == "error" {
			if _, has := e.vars["err"]; !has {
				e.vars["err"] = v
			}
		}
		if i == 0 && rs.Len() == 2 {
			if _, has := e.vars["result"]; !has {
				e.vars["result"] = v
			}
		}
	}
}

// loopEnv: names visible in a loop invariant.
func (g *Gen) loopEnv(li *loopInfo, st *State, phiVals map[*ssa.Phi]string) *Env {
	e := g.baseEnv(st)
	e.ownLocals = true
	g.addLets(e)
	h := li.header
	// locals via DebugRef whose value dominates the header
	byName := map[string][]ssa.Value{}
	addrByName := map[string]ssa.Value{}
	for _, b := range g.fn.Blocks {
		for _, ins := range b.Instrs {
			if d, ok := ins.(*ssa.DebugRef); ok {
				id := d.Object()
				if id == nil {
					continue
				}
				if _, isVar := id.(*types.Var); !isVar {
					continue
				}
				if d.IsAddr {
					addrByName[id.Name()] = d.X
					continue
				}
				dup := false
				for _, v := range byName[id.Name()] {
					if v == d.X {
						dup = true
					}
				}
				if !dup {
					byName[id.Name()] = append(byName[id.Name()], d.X)
				}
			}
		}
	}
	dominatesHeader := func(v ssa.Value) bool {
		ins, ok := v.(ssa.Instruction)
		if !ok {
			return true // params, consts
		}
		return ins.Block() != h && ins.Block().Dominates(h)
	}
	// a named variable that lives on the heap (captured by a closure, address taken) has no address DebugRef in SSA; find
	// its Alloc by name
	heapAllocs := map[string][]*ssa.Alloc{}
	for _, b := range g.fn.Blocks {
		for _, ins := range b.Instrs {
			if al, ok := ins.(*ssa.Alloc); ok && al.Heap && al.Comment != "" && al.Comment != "complit" && al.Comment != "new" {
				heapAllocs[al.Comment] = append(heapAllocs[al.Comment], al)
			}
		}
	}
	for name, als := range heapAllocs {
		if _, has := addrByName[name]; !has && len(als) == 1 {
			if _, named := byName[name]; named {
				addrByName[name] = als[0]
			}
		}
	}
	// variables that live in memory (address-taken, e.g. captured by a closure): their current content, not a value once stored
	for name, a := range addrByName {
		if _, shadow := e.vars[name]; shadow {
			continue
		}
		if al, ok := a.(*ssa.Alloc); ok {
			et := al.Type().Underlying().(*types.Pointer).Elem()
			if !g.escape[al] {
				if t, has := st.locals[al]; has {
					e.vars[name] = tv{t: t, ty: goT(et)}
				}
			} else if t, has := g.val[al]; has && dominatesHeader(al) {
				e.vars[name] = tv{t: e.load(t, et, ""), ty: goT(et), ref: t}
			}
		}
	}
	for name, vs := range byName {
		if _, shadow := e.vars[name]; shadow {
			continue // parameters (and lets) are never shadowed by a local of the same name
		}
		var cands []ssa.Value
		for _, v := range vs {
			if phi, isPhi := v.(*ssa.Phi); isPhi && phi.Block() == h {
				continue
			}
			if dominatesHeader(v) {
				if _, ok := g.val[v]; ok {
					cands = append(cands, v)
				} else if _, isC := v.(*ssa.Const); isC {
					cands = append(cands, v)
				}
			}
		}
		if len(cands) > 1 {
			// prefer computed values over the zero-value constant of the declaration, then the value
			// closest to the loop header in the dominator tree
			var nc []ssa.Value
			for _, v := range cands {
				if _, isC := v.(*ssa.Const); !isC {
					nc = append(nc, v)
				}
			}
			if len(nc) > 0 {
				cands = nc
			}
			if len(cands) > 1 {
				best := cands[0]
				ok := true
				for _, v := range cands[1:] {
					bi, _ := best.(ssa.Instruction)
					vi, _ := v.(ssa.Instruction)
					switch {
					case bi == nil:
						best = v
					case vi == nil:
					case bi.Block() != vi.Block() && bi.Block().Dominates(vi.Block()):
						best = v
					case bi.Block() != vi.Block() && vi.Block().Dominates(bi.Block()):
					default:
						ok = false
					}
				}
				if ok {
					cands = []ssa.Value{best}
				}
			}
		}
		if len(cands) == 1 {
			e.vars[name] = tv{t: g.term(cands[0]), ty: goT(cands[0].Type())}
		}
	}
	// phis of the header (and of enclosing loop headers, current values)
	bindPhis := func(hb *ssa.BasicBlock, vals map[*ssa.Phi]string) {
		for _, ins := range hb.Instrs {
			phi, ok := ins.(*ssa.Phi)
			if !ok {
				continue
			}
			t := ""
			if vals != nil {
				t = vals[phi]
			}
			if t == "" {
				t = g.val[phi]
			}
			if t == "" {
				continue
			}
			if phi.Comment == "rangeindex" {
				e.vars["iter"] = tv{t: fmt.Sprintf("(+ %s 1)", t), ty: stInt}
				if l := g.loops[hb]; l != nil {
					e.vars[fmt.Sprintf("iter%d", l.ordinal)] = tv{t: fmt.Sprintf("(+ %s 1)", t), ty: stInt}
				}
				continue
			}
			if phi.Comment != "" {
				e.vars[phi.Comment] = tv{t: t, ty: goT(phi.Type())}
			}
			if l := g.loops[hb]; l != nil {
				if cp, _ := g.countingLoop(l); cp == phi {
					// `for i := 0; i < n; i++`: i iterations are complete at the loop head, as with rangeindex+1
					e.vars["iter"] = tv{t: t, ty: stInt}
					e.vars[fmt.Sprintf("iter%d", l.ordinal)] = tv{t: t, ty: stInt}
				}
			}
		}
	}
	var chain []*loopInfo
	for p := li.parent; p != nil; p = p.parent {
		chain = append([]*loopInfo{p}, chain...)
	}
	for _, p := range chain {
		bindPhis(p.header, nil)
	}
	bindPhis(h, phiVals)
	if lc := g.loopContract(li); lc != nil {
		text := ""
		for _, c := range lc.Invariants {
			text += " " + c.Text
		}
		toks, _ := lex(text)
		used := map[string]bool{}
		for _, t := range toks {
			if t.kind == "ident" {
				used[t.val] = true
			}
		}
		// loop-carried named values of this loop and of the enclosing ones that no invariant of this loop names
		hbs := []*ssa.BasicBlock{h}
		for _, p := range chain {
			hbs = append(hbs, p.header)
		}
		for _, hb := range hbs {
			for _, ins := range hb.Instrs {
				if phi, ok := ins.(*ssa.Phi); ok && phi.Comment != "rangeindex" && phi.Comment != "" && !used[phi.Comment] {
					if v, ok := e.vars[phi.Comment]; ok {
						e.spare = append(e.spare, v)
					}
				}
			}
		}
	}
	// visited set of a map range feeding this loop
	for _, ins := range h.Instrs {
		if nx, ok := ins.(*ssa.Next); ok {
			if rng, ok := nx.Iter.(*ssa.Range); ok {
				if mt, isMap := rng.X.Type().Underlying().(*types.Map); isMap {
					tag := g.visTag(rng)
					e.vars["visited"] = tv{t: g.sc.lookup(st, tag), ty: &SType{Kind: "set", K: goT(mt.Key())}}
					// the map being ranged over (it may be an unnamed temporary such as a call result)
					if _, shadow := e.vars["ranged"]; !shadow {
						e.vars["ranged"] = tv{t: g.term(rng.X), ty: goT(rng.X.Type())}
					}
				}
			}
		}
	}
	return e
}
