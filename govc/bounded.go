package main

// Bounded stand-ins: storage leaves (bodies are SQL text) and functions outside the verified subset cannot be brought
// under the VC generator; their contracts are assumed by the proofs.  For the leaves listed in conformance/index.json
// a bounded conformance test executes the real function on a real SQLite ledger and compares the tables with the
// contract's ghost-ledger clause.  Results are reported separately, labelled bounded, and never counted as discharged
// obligations.

import (
	"encoding/json"
	"fmt"
	"os"
	"os/exec"
	"path/filepath"
	"regexp"
	"strings"
	"time"
)

type BoundedSpec struct {
	Test       string   `json:"test"`
	Pkg        string   `json:"pkg"`
	File       string   `json:"file"`
	Props      []string `json:"props"`
	StandsFor  []string `json:"stands_in_for"`
	Bound      string   `json:"bound"`
	NeedsNoHarness bool `json:"no_harness,omitempty"`
}

type BoundedResult struct {
	Spec    BoundedSpec
	Status  string // pass | fail | error
	Output  string
	Seconds float64
	Fails   []string // CONF lines
	Evals   int      // CONF-STATS evaluations=N
	Sig     string   // CONF-SIG sha=... n=... : signature of the complete set of failing cases (when the test reports one)
}

func loadBounded(verif, pid string) []BoundedSpec {
	var all, out []BoundedSpec
	b, err := os.ReadFile(filepath.Join(verif, "conformance", "index.json"))
	if err != nil {
		return nil
	}
	json.Unmarshal(b, &all)
	for _, s := range all {
		if hasProp(s.Props, pid) {
			out = append(out, s)
		}
	}
	return out
}

var confLine = regexp.MustCompile(`CONF [^\n]*`)
var confSig = regexp.MustCompile(`CONF-SIG (sha=[0-9A-Za-z_]+ n=\d+)`)
var confStats = regexp.MustCompile(`CONF-STATS evaluations=(\d+)`)

// runBounded runs the tests of one package in one `go test -overlay` invocation against repo.
func runBounded(specs []BoundedSpec, repo, verif, work string) []BoundedResult {
	byKey := map[string][]BoundedSpec{}
	var order []string
	for _, s := range specs {
		k := s.Pkg + "|" + s.File
		if _, ok := byKey[k]; !ok {
			order = append(order, k)
		}
		byKey[k] = append(byKey[k], s)
	}
	var res []BoundedResult
	for _, k := range order {
		ss := byKey[k]
		pkg, file := ss[0].Pkg, filepath.Join(verif, ss[0].File)
		var names []string
		for _, s := range ss {
			names = append(names, s.Test)
		}
		ov := map[string]map[string]string{"Replace": {
			filepath.Join(repo, pkg, "zz_verif_case_test.go"): file,
		}}
		if common := filepath.Join(filepath.Dir(file), "zz_conf_common_test.go"); fileExists(common) && common != file {
			ov["Replace"][filepath.Join(repo, pkg, "zz_verif_conf_common_test.go")] = common
		}
		if !ss[0].NeedsNoHarness {
			ov["Replace"][filepath.Join(repo, pkg, "zz_verif_harness_test.go")] = filepath.Join(verif, "harness", "zz_verif_harness_test.go")
		}
		ovb, _ := json.Marshal(ov)
		ovPath := filepath.Join(work, "overlay_"+sanitize(k)+".json")
		os.WriteFile(ovPath, ovb, 0644)
		t0 := time.Now()
		cmd := exec.Command("go", "test", "-overlay", ovPath, "-vet=off", "-count=1", "-timeout", "600s", "-run", "^("+strings.Join(names, "|")+")$", "-v", "./"+pkg+"/")
		cmd.Dir = repo
		cmd.Env = append(os.Environ(), "GOFLAGS=-mod=mod", "GOPROXY=off", "GOSUMDB=off", "GOTOOLCHAIN=local")
		outb, _ := cmd.CombinedOutput()
		out := string(outb)
		secs := time.Since(t0).Seconds()
		for _, s := range ss {
			r := BoundedResult{Spec: s, Seconds: secs / float64(len(ss))}
			own := out
			if i := strings.Index(own, "=== RUN   "+s.Test+"\n"); i >= 0 {
				own = own[i:]
				if j := strings.Index(own[1:], "=== RUN   "); j >= 0 {
					own = own[:j+1]
				}
			}
			if m := confSig.FindStringSubmatch(own); m != nil {
				r.Sig = m[1]
			}
			if m := confStats.FindStringSubmatch(own); m != nil {
				fmt.Sscanf(m[1], "%d", &r.Evals)
			}
			switch {
			case strings.Contains(out, "--- PASS: "+s.Test+" "):
				r.Status = "pass"
			case strings.Contains(out, "--- FAIL: "+s.Test+" "):
				r.Status = "fail"
				// the lines of this test: between its RUN line and its FAIL line
				seg := out
				if i := strings.Index(seg, "=== RUN   "+s.Test+"\n"); i >= 0 {
					seg = seg[i:]
				}
				if j := strings.Index(seg, "--- FAIL: "+s.Test+" "); j >= 0 {
					seg = seg[:j]
				}
				r.Fails = confLine.FindAllString(seg, -1)
				r.Output = lastLines(stripInfo(seg), 60)
			default:
				r.Status = "error" // did not build or did not run
				r.Output = lastLines(stripInfo(out), 60)
			}
			res = append(res, r)
		}
	}
	return res
}

func fileExists(p string) bool { _, err := os.Stat(p); return err == nil }

func stripInfo(s string) string {
	var keep []string
	for _, l := range strings.Split(s, "\n") {
		if strings.Contains(l, "level=info") || strings.Contains(l, "level=debug") {
			continue
		}
		keep = append(keep, l)
	}
	return strings.Join(keep, "\n")
}

func lastLines(s string, n int) string {
	ls := strings.Split(strings.TrimRight(s, "\n"), "\n")
	if len(ls) > n {
		ls = ls[len(ls)-n:]
	}
	return strings.Join(ls, "\n")
}

func writeBoundedReplay(work, pid, repo, verif string, r BoundedResult) string {
	dir := filepath.Join(work, "replay")
	os.MkdirAll(dir, 0755)
	path := filepath.Join(dir, "bounded_"+sanitize(r.Spec.Test)+".json")
	m := map[string]interface{}{
		"property":              pid,
		"kind":                  "bounded-conformance",
		"obligation":            "bounded:" + r.Spec.Test,
		"stands_in_for":         r.Spec.StandsFor,
		"bound":                 r.Spec.Bound,
		"failed_clauses":        r.Fails,
		"failure_set_signature": r.Sig,
		"replayed_on_real_code": true,
		"replay_test":           filepath.Join(verif, r.Spec.File) + " :: " + r.Spec.Test,
		"replay_cmd":            fmt.Sprintf("%s/tools/replay.sh %s %s '%s' %s", verif, r.Spec.Pkg, filepath.Join(verif, r.Spec.File), r.Spec.Test, repo),
		"replay_output":         r.Output,
	}
	b, _ := json.MarshalIndent(m, "", " ")
	os.WriteFile(path, b, 0644)
	return path
}
