package main

import "fmt"

// lemmaObligation: a pure SMT obligation "forall params. body" over spec functions.
func (eng *Engine) lemmaObligation(lm *Lemma) (*Obligation, error) {
	g := NewGen(eng, nil, nil)
	st := &State{pc: "true", mem: map[string]string{}}
	g.entry = st
	g.oldFrontier = g.frontier(st)
	eng.emitGlobalAxioms(g)
	env := &Env{g: g, sc: g.sc, eng: eng, st: st, old: st, vars: map[string]tv{}, pkg: eng.typesPkg(lm.Pkg)}
	for _, p := range lm.Params {
		ty, err := env.resolveType(p.Type)
		if err != nil {
			return nil, fmt.Errorf("lemma %s: %v", lm.Name, err)
		}
		n := g.sc.fresh("l_"+p.Name, env.sortOfS(ty))
		if ty.Kind == "go" {
			if f := g.sc.sorts.rangeFact(ty.Go, n); f != "" {
				g.sc.emit("(assert %s)", f)
			}
		}
		env.vars[p.Name] = tv{t: n, ty: ty}
	}
	t, err := env.formula(lm.Body)
	if err != nil {
		return nil, fmt.Errorf("lemma %s: %v", lm.Name, err)
	}
	return &Obligation{Name: "lemma:" + lm.Name, Kind: "lemma", Fn: "lemma " + lm.Name, PrefixLen: len(g.sc.lines), PC: "true", Goal: t, Script: g.sc, Text: lm.Text}, nil
}
