package main

// Symbolic program state: path condition, versioned heap "tags", local aggregates.

import (
	"fmt"
	"go/types"
	"sort"
	"strings"

	"golang.org/x/tools/go/ssa"
)

type epochParent struct {
	cond  string
	epoch int
}

type State struct {
	pc     string
	epoch  int
	mem    map[string]string // tag -> term (array or scalar)
	locals map[*ssa.Alloc]string
}

func (s *State) clone() *State {
	n := &State{pc: s.pc, epoch: s.epoch, mem: map[string]string{}, locals: map[*ssa.Alloc]string{}}
	for k, v := range s.mem {
		n.mem[k] = v
	}
	for k, v := range s.locals {
		n.locals[k] = v
	}
	return n
}

// Script under construction for one function (or one lemma).
type Script struct {
	sorts    *Sorts
	lines    []string
	declared map[string]bool
	declLine map[string]int
	nfresh   int
	tagSort  map[string]string // tag -> SMT sort of the stored term
	epochPar map[int][]epochParent
	epochFrontier map[int]string
	nepoch   int
	strlits  map[string]string
	lenFacts map[string]bool // slice terms whose non-negative length has been stated
	oldEq    map[string]string // heap version -> root version it agrees with on all objects older than the entry frontier
	steps    map[string]eqStep // heap version -> previous version it agrees with on every object whose rb is below all bounds
	linfo    []lineInfo
	sfInfos  map[string]*specFuncInfo
	errConsts []string
}

func NewScript() *Script {
	return &Script{sorts: NewSorts(), declared: map[string]bool{}, tagSort: map[string]string{}, epochPar: map[int][]epochParent{}, epochFrontier: map[int]string{}, oldEq: map[string]string{}, steps: map[string]eqStep{}, strlits: map[string]string{}}
}

func (sc *Script) emit(format string, a ...interface{}) {
	sc.lines = append(sc.lines, fmt.Sprintf(format, a...))
}

func (sc *Script) fresh(prefix, sortName string) string {
	sc.nfresh++
	n := fmt.Sprintf("%s_%d", sanitize(prefix), sc.nfresh)
	sc.emit("(declare-const %s %s)", n, sortName)
	return n
}

// define introduces a named constant equal to term.
func (sc *Script) define(prefix, sortName, term string) string {
	n := sc.fresh(prefix, sortName)
	sc.emit("(assert (= %s %s))", n, term)
	return n
}

func (sc *Script) assume(pc, fact string) {
	if fact == "" || fact == "true" {
		return
	}
	if pc == "" || pc == "true" {
		sc.emit("(assert %s)", fact)
	} else {
		sc.emit("(assert (=> %s %s))", pc, fact)
	}
}

func (sc *Script) strLit(v string) string {
	if n, ok := sc.strlits[v]; ok {
		return n
	}
	if v == "" {
		return "emptystr"
	}
	n := fmt.Sprintf("strlit_%d", len(sc.strlits)+1)
	sc.emit("(declare-const %s Str)", n)
	sc.emit("(assert (= (strlen %s) %d))", n, len(v))
	for ov, on := range sc.strlits {
		_ = ov
		sc.emit("(assert (not (= %s %s)))", n, on)
	}
	sc.emit("(assert (not (= %s emptystr)))", n)
	sc.strlits[v] = n
	return n
}

type eqStep struct {
	prev   string
	bounds []string // SMT Int terms: the step changed only objects r with rb(r) >= some bound (or == a listed rb)
}

// setStep records that version nw agrees with version prev on all objects whose rb is smaller than every bound.
// All bounds used by the generator are >= the allocation frontier at function entry.
func (sc *Script) setStep(nw, prev string, bounds ...string) {
	sc.oldEq[nw] = sc.oldBase(prev)
	sc.steps[nw] = eqStep{prev: prev, bounds: bounds}
}

// oldBase: the version that `name` is known to agree with on pre-existing objects (itself if unknown).
func (sc *Script) oldBase(name string) string {
	if b, ok := sc.oldEq[name]; ok {
		return b
	}
	return name
}

func (sc *Script) newEpoch(parents []epochParent) int {
	sc.nepoch++
	sc.epochPar[sc.nepoch] = parents
	return sc.nepoch
}

// tagDefault gives the name of tag's value at the start of an epoch, declaring
// and (for merge epochs) defining it on first use.
func (sc *Script) tagDefault(tag string, epoch int) string {
	name := fmt.Sprintf("M%d_%s", epoch, sanitize(tag))
	if sc.declared[name] {
		return name
	}
	sc.declared[name] = true
	if sc.declLine == nil {
		sc.declLine = map[string]int{}
	}
	sc.declLine[name] = len(sc.lines)
	srt, ok := sc.tagSort[tag]
	if !ok {
		panic("tag without sort: " + tag)
	}
	sc.emit("(declare-const %s %s)", name, srt)
	if ps := sc.epochPar[epoch]; len(ps) > 0 {
		t := sc.tagDefault(tag, ps[len(ps)-1].epoch)
		for i := len(ps) - 2; i >= 0; i-- {
			t = fmt.Sprintf("(ite %s %s %s)", ps[i].cond, sc.tagDefault(tag, ps[i].epoch), t)
		}
		sc.emit("(assert (= %s %s))", name, t)
	} else {
		sc.initTag(tag, name, sc.epochFrontierTerm(epoch))
	}
	return name
}

// initTag asserts well-formedness facts of a freshly introduced (unconstrained) tag value.
// epochFrontierTerm: allocation frontier at the time the epoch's unconstrained heap was introduced.
func (sc *Script) epochFrontierTerm(epoch int) string {
	if f, ok := sc.epochFrontier[epoch]; ok {
		return f
	}
	if tag := "!frontier"; epoch == 0 {
		sc.tagSort[tag] = "Int"
		return sc.tagDefault(tag, 0)
	}
	return ""
}

func (sc *Script) initTag(tag, name, frontier string) {
	// closed heap: references stored in an unconstrained heap value are older than the frontier at that time
	if frontier != "" && tag != "!frontier" {
		switch srt := sc.tagSort[tag]; {
		case srt == "(Array Ref Ref)":
			sc.emit("(assert (forall ((r Ref)) (! (< (rb (select %s r)) %s) :pattern ((select %s r)))))", name, frontier, name)
		case srt == "(Array Ref Slice)":
			sc.emit("(assert (forall ((r Ref)) (! (< (rb (sarr (select %s r))) %s) :pattern ((select %s r)))))", name, frontier, name)
		case strings.HasPrefix(tag, "MV!") && strings.HasSuffix(srt, " Ref))"):
			sc.emit("(assert (forall ((r Ref) (k %s)) (! (< (rb (select (select %s r) k)) %s) :pattern ((select (select %s r) k)))))", sc.tagSort["K:"+tag], name, frontier, name)
		case strings.HasPrefix(tag, "MV!") && strings.HasSuffix(srt, " Slice))"):
			sc.emit("(assert (forall ((r Ref) (k %s)) (! (< (rb (sarr (select (select %s r) k))) %s) :pattern ((select (select %s r) k)))))", sc.tagSort["K:"+tag], name, frontier, name)
		}
	}
	switch {
	case strings.HasPrefix(tag, "MD!"):
		// nil map has empty domain
		sc.emit("(assert (forall ((k %s)) (! (not (select (select %s null) k)) :pattern ((select (select %s null) k)))))", sc.mapKeySort(tag), name, name)
	case strings.HasPrefix(tag, "MV!"):
		if rf := sc.tagSort["VR:"+tag]; rf != "" {
			ks := sc.tagSort["K:"+tag]
			sc.emit("(assert (forall ((r Ref) (k %s)) (! %s :pattern ((select (select %s r) k)))))", ks, strings.ReplaceAll(rf, "$v", fmt.Sprintf("(select (select %s r) k)", name)), name)
		}
	case strings.HasPrefix(tag, "ML!"):
		sc.emit("(assert (= (select %s null) 0))", name)
		sc.emit("(assert (forall ((r Ref)) (! (>= (select %s r) 0) :pattern ((select %s r)))))", name, name)
	case tag == "!frontier":
		sc.emit("(assert (> %s 0))", name)
	}
}

func (sc *Script) mapKeySort(tag string) string {
	// tag sort is (Array Ref (Array K X)); recover K from registered key sorts
	return sc.tagSort["K:"+tag]
}

func (sc *Script) lookup(st *State, tag string) string {
	if v, ok := st.mem[tag]; ok {
		return v
	}
	return sc.tagDefault(tag, st.epoch)
}

// truncate drops the lines emitted since length n (a probe evaluation) together with the lazy declarations made in them.
func (sc *Script) truncate(n int) {
	for name, ln := range sc.declLine {
		if ln >= n {
			delete(sc.declared, name)
			delete(sc.declLine, name)
		}
	}
	sc.lines = sc.lines[:n]
	sc.lenFacts = nil // some of them may just have been cut off
}

func (sc *Script) regTag(tag, srt string) {
	if old, ok := sc.tagSort[tag]; ok && old != srt {
		panic(fmt.Sprintf("tag %s with two sorts %s / %s", tag, old, srt))
	}
	sc.tagSort[tag] = srt
}

type edge struct {
	cond string
	st   *State
}

// merge joins states along edges (edge cond already includes the source pc).
func (sc *Script) merge(name string, edges []edge) *State {
	if len(edges) == 0 {
		return &State{pc: "false", mem: map[string]string{}, locals: map[*ssa.Alloc]string{}}
	}
	pcs := []string{}
	for _, e := range edges {
		pcs = append(pcs, e.cond)
	}
	pc := pcs[0]
	if len(pcs) > 1 {
		pc = "(or " + strings.Join(pcs, " ") + ")"
	}
	pcn := sc.define("pc_"+name, "Bool", pc)
	if len(edges) == 1 {
		n := edges[0].st.clone()
		n.pc = pcn
		return n
	}
	n := &State{pc: pcn, mem: map[string]string{}, locals: map[*ssa.Alloc]string{}}
	sameEpoch := true
	for _, e := range edges[1:] {
		if e.st.epoch != edges[0].st.epoch {
			sameEpoch = false
		}
	}
	if sameEpoch {
		n.epoch = edges[0].st.epoch
	} else {
		var ps []epochParent
		for _, e := range edges {
			ps = append(ps, epochParent{e.cond, e.st.epoch})
		}
		n.epoch = sc.newEpoch(ps)
	}
	tags := map[string]bool{}
	for _, e := range edges {
		for t := range e.st.mem {
			tags[t] = true
		}
	}
	var tl []string
	for t := range tags {
		tl = append(tl, t)
	}
	sort.Strings(tl)
	for _, t := range tl {
		vals := make([]string, len(edges))
		same := true
		for i, e := range edges {
			vals[i] = sc.lookup(e.st, t)
			if vals[i] != vals[0] {
				same = false
			}
		}
		if same {
			n.mem[t] = vals[0]
			continue
		}
		term := vals[len(vals)-1]
		for i := len(vals) - 2; i >= 0; i-- {
			term = fmt.Sprintf("(ite %s %s %s)", edges[i].cond, vals[i], term)
		}
		n.mem[t] = sc.define("m_"+t, sc.tagSort[t], term)
		b0 := sc.oldBase(vals[0])
		sameBase := true
		for _, v := range vals[1:] {
			if sc.oldBase(v) != b0 {
				sameBase = false
			}
		}
		if sameBase {
			// nearest common ancestor of the incoming version chains; the merged version agrees with it below every
			// bound met on the way from any incoming version down to that ancestor
			chainOf := func(v string) []string {
				out := []string{v}
				for cur := v; ; {
					stp, ok := sc.steps[cur]
					if !ok || len(out) > 200 {
						break
					}
					out = append(out, stp.prev)
					cur = stp.prev
				}
				return out
			}
			first := chainOf(vals[0])
			common := ""
			for _, cand := range first {
				inAll := true
				for _, v := range vals[1:] {
					found := false
					for _, x := range chainOf(v) {
						if x == cand {
							found = true
							break
						}
					}
					if !found {
						inAll = false
						break
					}
				}
				if inAll {
					common = cand
					break
				}
			}
			if common != "" && common != n.mem[t] {
				var bounds []string
				seenB := map[string]bool{}
				for _, v := range vals {
					for cur := v; cur != common; {
						stp, ok := sc.steps[cur]
						if !ok {
							break
						}
						for _, bnd := range stp.bounds {
							if !seenB[bnd] {
								seenB[bnd] = true
								bounds = append(bounds, bnd)
							}
						}
						cur = stp.prev
					}
				}
				sc.setStep(n.mem[t], common, bounds...)
			}
		}
	}
	// locals: only those present in all incoming states survive
	for a, v0 := range edges[0].st.locals {
		vals := []string{v0}
		ok := true
		same := true
		for _, e := range edges[1:] {
			v, has := e.st.locals[a]
			if !has {
				ok = false
				break
			}
			if v != v0 {
				same = false
			}
			vals = append(vals, v)
		}
		if !ok {
			continue
		}
		if same {
			n.locals[a] = v0
			continue
		}
		term := vals[len(vals)-1]
		for i := len(vals) - 2; i >= 0; i-- {
			term = fmt.Sprintf("(ite %s %s %s)", edges[i].cond, vals[i], term)
		}
		n.locals[a] = sc.define("loc_"+a.Comment, sc.sorts.sortOf(a.Type().Underlying().(*types.Pointer).Elem()), term)
	}
	return n
}
