package main

// VC generation for one function: symbolic execution of the SSA over the
// loop-cut DAG, emitting an SMT script prefix and named obligations.

import (
	"fmt"
	"go/ast"
	"go/constant"
	"go/token"
	"go/types"
	"math/big"
	"os"
	"runtime/debug"
	"sort"
	"strings"

	"golang.org/x/tools/go/ssa"
)

type Obligation struct {
	Name      string
	Kind      string
	Fn        string
	PrefixLen int
	PC        string
	Goal      string
	Canary    bool
	Pos       string
	Text      string
	Script    *Script
	Slow      bool     // discharged only in the thorough tier
	Props     []string // if non-empty: the clause counts only for these properties
	Parts     []string // ensures: one conjunct per return point
}

type localPath struct {
	alloc *ssa.Alloc
	steps []lstep
}
type lstep struct {
	field int    // >=0 : field index
	index string // index term if field < 0
	typ   types.Type
}

type loopInfo struct {
	header  *ssa.BasicBlock
	blocks  map[*ssa.BasicBlock]bool
	parent  *loopInfo
	kids    []*loopInfo
	ordinal int
	minPos  token.Pos
	writes  *loopWrites
}

type Gen struct {
	ctIdents     map[string]bool
	inlineOf     *Gen // non-nil: executing a contract-less helper in place on behalf of inlineOf
	inlinePos    token.Pos       // position of the call that entered this helper
	curIns       ssa.Instruction // the instruction being executed
	usedSites    map[string]bool
	sitePos      token.Pos
	eng          *Engine
	fn           *ssa.Function
	ct           *Contract
	sc           *Script
	val          map[ssa.Value]string
	tup          map[ssa.Value][]string
	lp           map[ssa.Value]*localPath
	escape       map[*ssa.Alloc]bool
	in           map[*ssa.BasicBlock]*State
	out          map[*ssa.BasicBlock]*State
	obls         []*Obligation
	loops        map[*ssa.BasicBlock]*loopInfo
	entry        *State
	refuse       string // non-empty: function outside supported subset
	notes        []string
	nameCt       map[string]int
	srcCache     map[string][]string
	rets         []retPoint
	defers       []*ssa.Defer
	rangeMap     map[*ssa.Range]ssa.Value
	uncontracted map[string]bool
	assumptions  map[string]bool
	curBlock     *ssa.BasicBlock
	oldFrontier  string
	storeFresh   bool // the store being translated writes an object allocated by this function
	inlineDepth  int
	entryPrefix  int
	pathPoints   []pathPoint
}

type pathPoint struct {
	label  string
	pc     string
	prefix int
}

type retPoint struct {
	st      *State
	results []string
	prefix  int
}

func (g *Gen) rootFn() *ssa.Function {
	x := g
	for x.inlineOf != nil {
		x = x.inlineOf
	}
	return x.fn
}

// contractIdents: every identifier occurring in the clauses of this function's contract (and its site contracts).
func (g *Gen) contractIdents() map[string]bool {
	if g.ctIdents != nil {
		return g.ctIdents
	}
	g.ctIdents = map[string]bool{}
	add := func(text string) {
		toks, _ := lex(text)
		for _, t := range toks {
			if t.kind == "ident" {
				g.ctIdents[t.val] = true
			}
		}
	}
	collect := func(ct *Contract) {
		if ct == nil {
			return
		}
		for _, c := range ct.Requires {
			add(c.Text)
		}
		for _, c := range ct.Ensures {
			add(c.Text)
		}
		for _, lc := range ct.Loops {
			for _, c := range lc.Invariants {
				add(c.Text)
			}
			for _, c := range lc.BodyAsserts {
				add(c.Text)
			}
		}
		for _, l := range ct.Lets {
			add(l.Type) // the Type field of a let binder holds the expression text
		}
	}
	collect(g.ct)
	for k, ct := range g.eng.db.Contracts {
		if ct.Site && strings.Contains(k, ":"+g.rootFn().String()+":") {
			collect(ct)
		}
	}
	return g.ctIdents
}

func (g *Gen) markSite(k string) {
	if g.usedSites == nil {
		g.usedSites = map[string]bool{}
	}
	g.usedSites[k] = true
}

func (g *Gen) refusef(f string, a ...interface{}) {
	if g.refuse == "" {
		g.refuse = fmt.Sprintf(f, a...)
	}
}

func NewGen(eng *Engine, fn *ssa.Function, ct *Contract) *Gen {
	return &Gen{eng: eng, fn: fn, ct: ct, sc: NewScript(), val: map[ssa.Value]string{}, tup: map[ssa.Value][]string{},
		lp: map[ssa.Value]*localPath{}, escape: map[*ssa.Alloc]bool{}, in: map[*ssa.BasicBlock]*State{}, out: map[*ssa.BasicBlock]*State{},
		loops: map[*ssa.BasicBlock]*loopInfo{}, nameCt: map[string]int{}, srcCache: map[string][]string{}, rangeMap: map[*ssa.Range]ssa.Value{},
		uncontracted: map[string]bool{}, assumptions: map[string]bool{}}
}

// ---------------------------------------------------------------------------
// naming of obligations

func (g *Gen) srcLine(pos token.Pos) string {
	if !pos.IsValid() {
		return ""
	}
	p := g.eng.fset.Position(pos)
	lines, ok := g.srcCache[p.Filename]
	if !ok {
		b, err := os.ReadFile(p.Filename)
		if err == nil {
			lines = strings.Split(string(b), "\n")
		}
		g.srcCache[p.Filename] = lines
	}
	if p.Line-1 < len(lines) && p.Line >= 1 {
		s := strings.TrimSpace(lines[p.Line-1])
		if i := strings.Index(s, "//"); i > 0 {
			s = strings.TrimSpace(s[:i])
		}
		if len(s) > 70 {
			s = s[:70]
		}
		return s
	}
	return ""
}

func (g *Gen) fnShort() string {
	if g.inlineOf != nil {
		return g.inlineOf.fnShort()
	}
	s := g.fn.String()
	s = strings.ReplaceAll(s, "github.com/pegnet/pegnetd/", "")
	return s
}

func (g *Gen) addObl(kind, label string, st *State, goal string, pos token.Pos) *Obligation {
	if g.inlineOf != nil {
		// raised while executing a helper in place: named after the caller, counted by the caller
		o := g.inlineOf.addObl(kind, "in "+g.fn.Name()+": "+label, st, goal, pos)
		o.PrefixLen = len(g.sc.lines)
		return o
	}
	base := fmt.Sprintf("%s/%s:%s", g.fnShort(), kind, label)
	g.nameCt[base]++
	name := base
	if g.nameCt[base] > 1 {
		name = fmt.Sprintf("%s#%d", base, g.nameCt[base])
	}
	p := ""
	if pos.IsValid() {
		pp := g.eng.fset.Position(pos)
		p = fmt.Sprintf("%s:%d", pp.Filename, pp.Line)
	}
	o := &Obligation{Name: name, Kind: kind, Fn: g.fn.String(), PrefixLen: len(g.sc.lines), PC: st.pc, Goal: goal, Pos: p, Script: g.sc}
	if strings.Contains(label, "!slow") {
		o.Slow = true
		o.Name = strings.ReplaceAll(o.Name, "!slow", "")
	}
	// clause-level property tags:  @name{C17,C10}
	if i := strings.Index(o.Name, "{"); i >= 0 {
		if j := strings.Index(o.Name[i:], "}"); j > 0 {
			o.Props = strings.Split(o.Name[i+1:i+j], ",")
			o.Name = o.Name[:i] + o.Name[i+j+1:]
			if kind == "pre" && !strings.HasPrefix(label, "at-site:") && g.ct != nil {
				// a precondition is assumed by the callee's proof under every property: if none of the properties the
				// clause was written for is one this caller is verified under, the obligation would be counted nowhere --
				// it then counts under every property of the caller.  (Site contracts are assertions of the caller itself,
				// nobody assumes them: their tags stay a filter.)
				served := false
				for _, p := range o.Props {
					if hasProp(g.ct.Props, p) {
						served = true
					}
				}
				if !served {
					o.Props = nil
				}
			}
		}
	}
	g.obls = append(g.obls, o)
	return o
}

func (g *Gen) safety(kind string, st *State, goal string, pos token.Pos) {
	if g.ct != nil && !g.ct.NoPanic {
		// absence of panics is not claimed for this function; execution still continues past the operation only if it did not
		// panic, so the condition may be assumed for what follows (partial correctness)
		g.sc.assume(st.pc, goal)
		return
	}
	label := g.srcLine(pos)
	if label == "" {
		label = "(synthetic)"
	}
	g.addObl(kind, label, st, goal, pos)
	// after the check the execution continues only if it held
	g.sc.assume(st.pc, goal)
}

// ---------------------------------------------------------------------------
// loops

func (g *Gen) findLoops() {
	fn := g.fn
	for _, b := range fn.Blocks {
		for _, s := range b.Succs {
			if s.Dominates(b) { // back edge b -> s
				li := g.loops[s]
				if li == nil {
					li = &loopInfo{header: s, blocks: map[*ssa.BasicBlock]bool{s: true}}
					g.loops[s] = li
				}
				// natural loop: nodes reaching b without passing s
				stack := []*ssa.BasicBlock{b}
				for len(stack) > 0 {
					x := stack[len(stack)-1]
					stack = stack[:len(stack)-1]
					if li.blocks[x] {
						continue
					}
					li.blocks[x] = true
					for _, p := range x.Preds {
						stack = append(stack, p)
					}
				}
			}
		}
	}
	// nesting
	var all []*loopInfo
	for _, li := range g.loops {
		all = append(all, li)
		li.minPos = token.NoPos
		for b := range li.blocks {
			for _, ins := range b.Instrs {
				if _, isDbg := ins.(*ssa.DebugRef); isDbg {
					continue
				}
				if p := ins.Pos(); p.IsValid() && (!li.minPos.IsValid() || p < li.minPos) {
					li.minPos = p
				}
			}
		}
	}
	for _, a := range all {
		for _, b := range all {
			if a != b && b.blocks[a.header] && len(b.blocks) > len(a.blocks) {
				if a.parent == nil || len(b.blocks) < len(a.parent.blocks) {
					a.parent = b
				}
			}
		}
	}
	var roots []*loopInfo
	for _, a := range all {
		if a.parent == nil {
			roots = append(roots, a)
		} else {
			a.parent.kids = append(a.parent.kids, a)
		}
	}
	// AST loop forest of this function (not descending into FuncLits)
	type astLoop struct {
		kids []*astLoop
		ord  int
	}
	var keys []string // header text of the loops in ordinal order
	var body *ast.BlockStmt
	switch n := fn.Syntax().(type) {
	case *ast.FuncDecl:
		body = n.Body
	case *ast.FuncLit:
		body = n.Body
	}
	ord := 0
	var build func(n ast.Node) []*astLoop
	build = func(n ast.Node) []*astLoop {
		var res []*astLoop
		ast.Inspect(n, func(x ast.Node) bool {
			if x == nil || x == n {
				return true
			}
			switch s := x.(type) {
			case *ast.FuncLit:
				return false
			case *ast.ForStmt:
				ord++
				k := "for"
				if s.Cond != nil {
					k = "for " + types.ExprString(s.Cond)
				}
				keys = append(keys, k)
				l := &astLoop{ord: ord}
				l.kids = build(s.Body)
				res = append(res, l)
				return false
			case *ast.RangeStmt:
				ord++
				keys = append(keys, "range "+types.ExprString(s.X))
				l := &astLoop{ord: ord}
				l.kids = build(s.Body)
				res = append(res, l)
				return false
			}
			return true
		})
		return res
	}
	var astRoots []*astLoop
	if body != nil {
		astRoots = build(body)
	}
	var match func(ss []*loopInfo, as []*astLoop) bool
	match = func(ss []*loopInfo, as []*astLoop) bool {
		sort.Slice(ss, func(i, j int) bool { return ss[i].minPos < ss[j].minPos })
		if len(ss) != len(as) {
			return false
		}
		for i := range ss {
			ss[i].ordinal = as[i].ord
			if !match(ss[i].kids, as[i].kids) {
				return false
			}
		}
		return true
	}
	if !match(roots, astRoots) {
		// fall back: order all SSA loops by position; accept only if counts agree
		if len(all) == ord {
			sort.Slice(all, func(i, j int) bool { return all[i].minPos < all[j].minPos })
			for i, l := range all {
				l.ordinal = i + 1
			}
			g.notes = append(g.notes, "loop nest matched by position fallback")
		} else {
			g.refusef("loop nest of SSA (%d loops) does not match AST (%d loops)", len(all), ord)
		}
	}
	g.rematchLoops(all, keys)
}

// rematchLoops keeps the loop ordinals of the contract meaningful when loops were added to or removed from the function.
// Contracts name loops by their ordinal on the pinned tree; baseline/loops.json records the header text of every loop
// (`range <expr>` / `for <cond>`) of the functions under contract there.  When the number of loops differs from the
// recorded one, the loops are aligned with the recorded ones by header text, in order (longest common subsequence): an
// aligned loop takes the recorded ordinal, a loop that is new takes an ordinal above all recorded ones (no contract clause
// can name it, so it is an ordinary loop without invariant), and a recorded loop that has no partner leaves its clauses
// without a loop, which is refused below.  With an equal count nothing changes (position decides, as before).
func (g *Gen) rematchLoops(all []*loopInfo, keys []string) {
	fn := g.fn.String()
	if len(keys) > 0 && g.eng.seenLoops != nil {
		g.eng.seenLoops[fn] = keys
	}
	base := g.eng.loopKeys[fn]
	if base != nil && len(base) != len(keys) {
		n, m := len(base), len(keys)
		lcs := make([][]int, n+1)
		for i := range lcs {
			lcs[i] = make([]int, m+1)
		}
		for i := n - 1; i >= 0; i-- {
			for j := m - 1; j >= 0; j-- {
				if base[i] == keys[j] {
					lcs[i][j] = lcs[i+1][j+1] + 1
				} else if lcs[i+1][j] >= lcs[i][j+1] {
					lcs[i][j] = lcs[i+1][j]
				} else {
					lcs[i][j] = lcs[i][j+1]
				}
			}
		}
		newOrd := map[int]int{} // current ordinal -> recorded ordinal
		for i, j := 0, 0; i < n && j < m; {
			if base[i] == keys[j] {
				newOrd[j+1] = i + 1
				i++
				j++
			} else if lcs[i+1][j] >= lcs[i][j+1] {
				i++
			} else {
				j++
			}
		}
		extra := n
		for j := 1; j <= m; j++ {
			if _, ok := newOrd[j]; !ok {
				extra++
				newOrd[j] = extra
			}
		}
		for _, l := range all {
			l.ordinal = newOrd[l.ordinal]
		}
		g.notes = append(g.notes, fmt.Sprintf("loops re-aligned with the pinned tree by header text (%d recorded, %d now)", n, m))
	}
	if g.ct != nil {
		have := map[int]bool{}
		for _, l := range all {
			have[l.ordinal] = true
		}
		var missing []int
		for n := range g.ct.Loops {
			if !have[n] {
				missing = append(missing, n)
			}
		}
		sort.Ints(missing)
		for _, n := range missing {
			g.refusef("the contract has clauses for loop %d, but the function has no such loop (loops: %v)", n, keys)
		}
	}
}

// ---------------------------------------------------------------------------
// escape analysis for Allocs

func (g *Gen) analyseAllocs() {
	var addrOnly func(v ssa.Value) bool
	addrOnly = func(v ssa.Value) bool {
		for _, r := range *v.Referrers() {
			switch u := r.(type) {
			case *ssa.UnOp:
				if u.Op != token.MUL {
					return false
				}
			case *ssa.Store:
				if u.Val == v {
					return false
				}
			case *ssa.FieldAddr:
				if !addrOnly(u) {
					return false
				}
			case *ssa.IndexAddr:
				if u.X != v || !addrOnly(u) {
					return false
				}
			case *ssa.DebugRef:
			default:
				return false
			}
		}
		return true
	}
	for _, b := range g.fn.Blocks {
		for _, ins := range b.Instrs {
			if a, ok := ins.(*ssa.Alloc); ok {
				g.escape[a] = !addrOnly(a)
				// arrays that are not byte arrays: keep on the heap (indexable cells)
				if arr, ok := a.Type().Underlying().(*types.Pointer).Elem().Underlying().(*types.Array); ok && !isByteLike(arr.Elem()) {
					g.escape[a] = true
				}
			}
		}
	}
}

// ---------------------------------------------------------------------------
// values

func (g *Gen) constTerm(c *ssa.Const) string {
	t := c.Type()
	if c.Value == nil {
		return g.sc.sorts.zero(t)
	}
	switch c.Value.Kind() {
	case constant.Bool:
		if constant.BoolVal(c.Value) {
			return "true"
		}
		return "false"
	case constant.String:
		return g.sc.strLit(constant.StringVal(c.Value))
	case constant.Int:
		if b, ok := t.Underlying().(*types.Basic); ok && b.Info()&types.IsFloat != 0 {
			return floatLit(c.Value)
		}
		v, _ := new(big.Int).SetString(c.Value.ExactString(), 10)
		return smtInt(v)
	case constant.Float:
		if b, ok := t.Underlying().(*types.Basic); ok && b.Info()&types.IsInteger != 0 {
			v, _ := new(big.Int).SetString(constant.ToInt(c.Value).ExactString(), 10)
			return smtInt(v)
		}
		return floatLit(c.Value)
	}
	return g.sc.sorts.zero(t)
}

func floatLit(v constant.Value) string {
	f, _ := constant.Float64Val(v)
	r := new(big.Rat).SetFloat64(f)
	if r == nil {
		return "(_ NaN 11 53)"
	}
	neg := r.Sign() < 0
	if neg {
		r.Neg(r)
	}
	s := fmt.Sprintf("((_ to_fp 11 53) RNE (/ %s.0 %s.0))", r.Num().String(), r.Denom().String())
	if neg {
		s = "(fp.neg " + s + ")"
	}
	return s
}

func (g *Gen) globalRef(gl *ssa.Global) string {
	id := g.eng.globalID(gl)
	return fmt.Sprintf("(mkref (- %d) pnil)", id)
}

func (g *Gen) term(v ssa.Value) string {
	switch x := v.(type) {
	case *ssa.Const:
		return g.constTerm(x)
	case *ssa.Global:
		return g.globalRef(x)
	case *ssa.Function:
		n := "fn_" + sanitize(x.String())
		if !g.sc.declared[n] {
			g.sc.declared[n] = true
			g.sc.emit("(declare-const %s Func)", n)
			g.sc.emit("(assert (not (= %s func_nil)))", n)
		}
		return n
	case *ssa.Builtin:
		return "func_nil"
	}
	if t, ok := g.val[v]; ok {
		return t
	}
	// not yet defined (e.g. value from an unprocessed/unreachable block): havoc
	t := g.freshOf("undef_"+v.Name(), v.Type())
	g.val[v] = t
	return t
}

func (g *Gen) freshOf(prefix string, t types.Type) string {
	n := g.sc.fresh(prefix, g.sc.sorts.sortOf(t))
	if f := g.sc.sorts.rangeFact(t, n); f != "" {
		g.sc.emit("(assert %s)", f)
	}
	return n
}

func (g *Gen) setVal(v ssa.Value, term string) {
	if _, isTuple := v.Type().(*types.Tuple); isTuple {
		return
	}
	n := g.sc.define(v.Name(), g.sc.sorts.sortOf(v.Type()), term)
	g.val[v] = n
}

// ---------------------------------------------------------------------------
// heap access

func (g *Gen) leafTagFor(ptr ssa.Value, elem types.Type) string {
	switch p := ptr.(type) {
	case *ssa.FieldAddr:
		st := p.X.Type().Underlying().(*types.Pointer).Elem()
		return g.fieldTag(st, p.Field)
	}
	return g.cellTag(elem)
}

func (g *Gen) fieldTag(structType types.Type, i int) string {
	ss := g.sc.sorts.structOf(structType)
	tag := fmt.Sprintf("F!%s!%d", ss.name, i)
	ft := ss.st.Field(i).Type()
	if _, isStruct := ft.Underlying().(*types.Struct); !isStruct {
		g.sc.regTag(tag, fmt.Sprintf("(Array Ref %s)", g.sc.sorts.sortOf(ft)))
	}
	return tag
}

func (g *Gen) cellTag(t types.Type) string {
	srt := g.sc.sorts.sortOf(t)
	tag := "C!" + srt
	g.sc.regTag(tag, fmt.Sprintf("(Array Ref %s)", srt))
	return tag
}

// loadAt reads a value of type t stored at ref (leaf cells decomposed by struct fields).
func (g *Gen) loadAt(st *State, ref string, t types.Type, tag string) string {
	switch u := t.Underlying().(type) {
	case *types.Struct:
		ss := g.sc.sorts.structOf(t)
		if u.NumFields() == 0 {
			return "mk_" + ss.name
		}
		var fs []string
		for i := 0; i < u.NumFields(); i++ {
			fs = append(fs, g.loadAt(st, fmt.Sprintf("(fld %s %d)", ref, i), u.Field(i).Type(), g.fieldTag(t, i)))
		}
		return fmt.Sprintf("(mk_%s %s)", ss.name, strings.Join(fs, " "))
	case *types.Array:
		if !isByteLike(u.Elem()) {
			// array cells live at idx(ref,i); build the value for small arrays
			if u.Len() <= 16 {
				term := fmt.Sprintf("((as const %s) %s)", g.sc.sorts.sortOf(t), g.sc.sorts.zero(u.Elem()))
				for i := int64(0); i < u.Len(); i++ {
					term = fmt.Sprintf("(store %s %d %s)", term, i, g.loadAt(st, fmt.Sprintf("(idx %s %d)", ref, i), u.Elem(), g.cellTag(u.Elem())))
				}
				return term
			}
			return g.freshOf("bigarray", t)
		}
	}
	if tag == "" {
		tag = g.cellTag(t)
	}
	return fmt.Sprintf("(select %s %s)", g.sc.lookup(st, tag), ref)
}

func (g *Gen) storeAt(st *State, ref string, t types.Type, tag string, val string) {
	switch u := t.Underlying().(type) {
	case *types.Struct:
		ss := g.sc.sorts.structOf(t)
		for i := 0; i < u.NumFields(); i++ {
			g.storeAt(st, fmt.Sprintf("(fld %s %d)", ref, i), u.Field(i).Type(), g.fieldTag(t, i), fmt.Sprintf("(%s %s)", ss.fields[i], val))
		}
		return
	case *types.Array:
		if !isByteLike(u.Elem()) {
			if u.Len() <= 16 {
				isZero := val == g.sc.sorts.zero(t)
				for i := int64(0); i < u.Len(); i++ {
					ev := fmt.Sprintf("(select %s %d)", val, i)
					if isZero {
						ev = g.sc.sorts.zero(u.Elem())
					}
					g.storeAt(st, fmt.Sprintf("(idx %s %d)", ref, i), u.Elem(), g.cellTag(u.Elem()), ev)
				}
			} else {
				g.havocTag(st, g.cellTag(u.Elem()))
			}
			return
		}
	}
	if tag == "" {
		tag = g.cellTag(t)
	}
	cur := g.sc.lookup(st, tag)
	st.mem[tag] = g.sc.define("m_"+tag, g.sc.tagSort[tag], fmt.Sprintf("(store %s %s %s)", cur, ref, val))
	if g.storeFresh {
		g.sc.setStep(st.mem[tag], cur, fmt.Sprintf("(rb %s)", ref))
	} else {
		g.frameWrite(st, tag, fmt.Sprintf("(rb %s)", ref), cur, st.mem[tag])
	}
}

// frameWrite: a write that is not syntactically known to hit an object allocated by this function. If the contract's
// modifies clause names no location in this heap tag, the write must target an object allocated after entry
// (local obligation, the per-write form of the frame condition); the new version then agrees with the old one on
// all pre-existing objects.
func (g *Gen) frameWrite(st *State, tag, rbTerm, cur, nw string) {
	g.frameWriteX(st, tag, rbTerm, cur, nw, "")
}

// frameWriteX: exempt is a condition under which nothing is written at all (an empty slice).
func (g *Gen) frameWriteX(st *State, tag, rbTerm, cur, nw, exempt string) {
	if g.ct == nil || g.ct.ModAll || g.ct.ModHeap || g.entry == nil || g.oldFrontier == "" {
		return
	}
	if !strings.HasPrefix(g.sc.tagSort[tag], "(Array Ref ") {
		return
	}
	if excl, err := g.modifiedRefs(tag); err != nil || len(excl) > 0 {
		return // the tag has declared modifiable locations: checked by the whole-function frame obligation
	}
	goal := fmt.Sprintf("(>= %s %s)", rbTerm, g.oldFrontier)
	if exempt != "" {
		goal = fmt.Sprintf("(or %s %s)", exempt, goal)
	}
	o := g.addObl("frame-write", tag, st, goal, token.NoPos)
	o.Text = "write to a heap location outside the modifies clause must target an object allocated by the function"
	g.sc.assume(st.pc, goal)
	g.sc.setStep(nw, cur, rbTerm)
}

// isFreshRoot: the address points into an object allocated by this function.
func (g *Gen) isFreshRoot(v ssa.Value) bool {
	switch x := v.(type) {
	case *ssa.FieldAddr:
		return g.isFreshRoot(x.X)
	case *ssa.IndexAddr:
		return g.isFreshRoot(x.X)
	case *ssa.Alloc, *ssa.MakeSlice, *ssa.MakeMap:
		return true
	case *ssa.Slice:
		return g.isFreshRoot(x.X)
	case *ssa.Call:
		if b, ok := x.Call.Value.(*ssa.Builtin); ok && b.Name() == "append" {
			return true
		}
	}
	return false
}

func (g *Gen) havocTag(st *State, tag string) {
	n := g.sc.fresh("hv_"+tag, g.sc.tagSort[tag])
	fr := ""
	if tag != "!frontier" {
		fr = g.frontier(st)
	}
	g.sc.initTag(tag, n, fr)
	st.mem[tag] = n
}

func (g *Gen) havocAll(st *State) { g.havocAllBut(st, false) }

// havocHeap forgets every heap cell but keeps ghost state and call counters.
func (g *Gen) havocHeap(st *State) { g.havocAllBut(st, true) }

func (g *Gen) havocAllBut(st *State, keepGhost bool) {
	// keep non-heap tags (visited sets of ranges) and the allocation frontier monotone
	fr := g.frontier(st)
	keep := map[string]string{}
	for t := range g.sc.tagSort {
		if strings.HasPrefix(t, "V!") || (keepGhost && (strings.HasPrefix(t, "G!") || strings.HasPrefix(t, "N!"))) {
			if strings.HasPrefix(t, "V!") {
				if v, ok := st.mem[t]; ok {
					keep[t] = v
				}
				continue
			}
			keep[t] = g.sc.lookup(st, t)
		}
	}
	st.epoch = g.sc.newEpoch(nil)
	st.mem = keep
	nf := g.sc.fresh("frontier", "Int")
	g.sc.emit("(assert (>= %s %s))", nf, fr)
	st.mem["!frontier"] = nf
	g.sc.epochFrontier[st.epoch] = nf
}

func (g *Gen) frontier(st *State) string {
	g.sc.regTag("!frontier", "Int")
	return g.sc.lookup(st, "!frontier")
}

func (g *Gen) allocRef(st *State, name string) string {
	fr := g.frontier(st)
	r := g.sc.define("alloc_"+name, "Ref", fmt.Sprintf("(mkref %s pnil)", fr))
	st.mem["!frontier"] = g.sc.define("frontier", "Int", fmt.Sprintf("(+ %s 1)", fr))
	return r
}

// assumeAllocated states that a reference obtained from the environment is older than the frontier.
func (g *Gen) assumeKnownRef(st *State, t types.Type, term string) {
	switch t.Underlying().(type) {
	case *types.Pointer, *types.Map:
		g.sc.emit("(assert (< (rb %s) %s))", term, g.frontier(st))
	case *types.Slice:
		g.sc.emit("(assert (< (rb (sarr %s)) %s))", term, g.frontier(st))
	}
}

// map tags
func (g *Gen) mapTags(mt *types.Map) (dom, val, ln string) {
	ks, vs := g.sc.sorts.sortOf(mt.Key()), g.sc.sorts.sortOf(mt.Elem())
	suffix := ks + "!" + vs
	dom, val, ln = "MD!"+suffix, "MV!"+suffix, "ML!"+suffix
	g.sc.regTag(dom, fmt.Sprintf("(Array Ref (Array %s Bool))", ks))
	g.sc.tagSort["K:"+dom] = ks
	g.sc.regTag(val, fmt.Sprintf("(Array Ref (Array %s %s))", ks, vs))
	g.sc.tagSort["K:"+val] = ks
	if rf := g.sc.sorts.rangeFact(mt.Elem(), "$v"); rf != "" {
		if _, isInt := mt.Elem().Underlying().(*types.Basic); isInt {
			g.sc.tagSort["VR:"+val] = rf
		}
	}
	g.sc.regTag(ln, "(Array Ref Int)")
	return
}

func (g *Gen) mapDomOf(st *State, mt *types.Map, m string) string {
	d, _, _ := g.mapTags(mt)
	return fmt.Sprintf("(select %s %s)", g.sc.lookup(st, d), m)
}
func (g *Gen) mapValOf(st *State, mt *types.Map, m string) string {
	_, v, _ := g.mapTags(mt)
	return fmt.Sprintf("(select %s %s)", g.sc.lookup(st, v), m)
}
func (g *Gen) mapLenOf(st *State, mt *types.Map, m string) string {
	d, _, l := g.mapTags(mt)
	ln := fmt.Sprintf("(select %s %s)", g.sc.lookup(st, l), m)
	dom := fmt.Sprintf("(select %s %s)", g.sc.lookup(st, d), m)
	ks := g.sc.sorts.sortOf(mt.Key())
	// cardinality facts (true of every finite map whose length is |dom|)
	key := "card:" + ln + dom
	if !g.sc.declared[key] {
		g.sc.declared[key] = true
		g.sc.emit("(assert (and (>= %s 0) (<= %s 9223372036854775807)))", ln, ln)
		g.sc.emit("(assert (forall ((a %s)) (! (=> (select %s a) (>= %s 1)) :pattern ((select %s a)))))", ks, dom, ln, dom)
		g.sc.emit("(assert (forall ((a %s) (b %s)) (! (=> (and (select %s a) (select %s b) (not (= a b))) (>= %s 2)) :pattern ((select %s a) (select %s b)))))", ks, ks, dom, dom, ln, dom, dom)
		g.sc.emit("(assert (=> (>= %s 1) (exists ((a %s)) (select %s a))))", ln, ks, dom)
	}
	return ln
}

func (g *Gen) mapLookup(st *State, mt *types.Map, m, k string) (val string, ok string) {
	dom := g.mapDomOf(st, mt, m)
	vals := g.mapValOf(st, mt, m)
	ok = fmt.Sprintf("(select %s %s)", dom, k)
	val = fmt.Sprintf("(ite %s (select %s %s) %s)", ok, vals, k, g.sc.sorts.zero(mt.Elem()))
	return
}

func (g *Gen) mapUpdate(st *State, mt *types.Map, m, k, v string) {
	d, vt, l := g.mapTags(mt)
	dom := g.sc.lookup(st, d)
	vals := g.sc.lookup(st, vt)
	lens := g.sc.lookup(st, l)
	had := fmt.Sprintf("(select (select %s %s) %s)", dom, m, k)
	st.mem[l] = g.sc.define("m_len", g.sc.tagSort[l], fmt.Sprintf("(store %s %s (ite %s (select %s %s) (+ (select %s %s) 1)))", lens, m, had, lens, m, lens, m))
	st.mem[d] = g.sc.define("m_dom", g.sc.tagSort[d], fmt.Sprintf("(store %s %s (store (select %s %s) %s true))", dom, m, dom, m, k))
	st.mem[vt] = g.sc.define("m_val", g.sc.tagSort[vt], fmt.Sprintf("(store %s %s (store (select %s %s) %s %s))", vals, m, vals, m, k, v))
	if g.storeFresh {
		rbm := fmt.Sprintf("(rb %s)", m)
		g.sc.setStep(st.mem[l], lens, rbm)
		g.sc.setStep(st.mem[d], dom, rbm)
		g.sc.setStep(st.mem[vt], vals, rbm)
	} else {
		g.frameWrite(st, l, fmt.Sprintf("(rb %s)", m), lens, st.mem[l])
		g.frameWrite(st, d, fmt.Sprintf("(rb %s)", m), dom, st.mem[d])
		g.frameWrite(st, vt, fmt.Sprintf("(rb %s)", m), vals, st.mem[vt])
	}
}

// ---------------------------------------------------------------------------
// local aggregates

func (g *Gen) localGet(st *State, p *localPath) string {
	t := st.locals[p.alloc]
	if t == "" {
		t = g.sc.sorts.zero(p.alloc.Type().Underlying().(*types.Pointer).Elem())
	}
	cur := p.alloc.Type().Underlying().(*types.Pointer).Elem()
	for _, s := range p.steps {
		if s.field >= 0 {
			ss := g.sc.sorts.structOf(cur)
			t = fmt.Sprintf("(%s %s)", ss.fields[s.field], t)
			cur = ss.st.Field(s.field).Type()
		} else {
			t = fmt.Sprintf("(select %s %s)", t, s.index)
			cur = cur.Underlying().(*types.Array).Elem()
		}
	}
	return t
}

func (g *Gen) localSet(st *State, p *localPath, val string) {
	root := p.alloc.Type().Underlying().(*types.Pointer).Elem()
	cur := st.locals[p.alloc]
	if cur == "" {
		cur = g.sc.sorts.zero(root)
	}
	var upd func(term string, t types.Type, steps []lstep) string
	upd = func(term string, t types.Type, steps []lstep) string {
		if len(steps) == 0 {
			return val
		}
		s := steps[0]
		if s.field >= 0 {
			ss := g.sc.sorts.structOf(t)
			var fs []string
			for i := range ss.fields {
				f := fmt.Sprintf("(%s %s)", ss.fields[i], term)
				if i == s.field {
					f = upd(f, ss.st.Field(i).Type(), steps[1:])
				}
				fs = append(fs, f)
			}
			return fmt.Sprintf("(mk_%s %s)", ss.name, strings.Join(fs, " "))
		}
		et := t.Underlying().(*types.Array).Elem()
		return fmt.Sprintf("(store %s %s %s)", term, s.index, upd(fmt.Sprintf("(select %s %s)", term, s.index), et, steps[1:]))
	}
	st.locals[p.alloc] = g.sc.define("loc_"+p.alloc.Comment, g.sc.sorts.sortOf(root), upd(cur, root, p.steps))
}

// ---------------------------------------------------------------------------
// driver

func (g *Gen) Run() {
	defer func() {
		if r := recover(); r != nil {
			if os.Getenv("GOVC_DEBUG") != "" {
				fmt.Fprintf(os.Stderr, "%s\n", debug.Stack())
			}
			g.refusef("engine panic: %v", r)
		}
	}()
	fn := g.fn
	if len(fn.Blocks) == 0 {
		g.refusef("no body")
		return
	}
	g.findLoops()
	if g.refuse != "" {
		return
	}
	g.analyseAllocs()
	for _, b := range fn.Blocks {
		for _, ins := range b.Instrs {
			switch ins.(type) {
			case *ssa.Go, *ssa.Send, *ssa.Select, *ssa.MakeChan:
				g.refusef("unsupported instruction %T", ins)
				return
			}
		}
	}
	// entry state
	st := &State{pc: "true", mem: map[string]string{}, locals: map[*ssa.Alloc]string{}}
	g.entry = st
	g.oldFrontier = g.frontier(st)
	for _, p := range fn.Params {
		t := g.freshOf("p_"+p.Name(), p.Type())
		g.val[p] = t
		g.assumeKnownRef(st, p.Type(), t)
		if _, isPtr := p.Type().Underlying().(*types.Pointer); isPtr && !(g.ct != nil && g.ct.Nullable[p.Name()]) {
			g.sc.emit("(assert (not (= %s null)))", t)
		}
	}
	for _, fv := range fn.FreeVars {
		t := g.freshOf("fv_"+fv.Name(), fv.Type())
		g.val[fv] = t
		g.assumeKnownRef(st, fv.Type(), t)
		g.sc.emit("(assert (not (= %s null)))", t)
	}
	g.eng.emitGlobalAxioms(g)
	// requires
	if g.ct != nil {
		env := g.entryEnv(st)
		for _, c := range g.ct.Requires {
			t, err := env.formula(c.E)
			if err != nil {
				g.refusef("requires %q: %v", c.Text, err)
				return
			}
			g.sc.assume("", t)
		}
	}
	g.entry = st.clone()
	g.entryPrefix = len(g.sc.lines)

	// reverse postorder ignoring back edges
	order := g.rpo()
	for _, b := range order {
		g.curBlock = b
		g.processBlock(b, st)
		if g.refuse != "" {
			return
		}
	}
	g.finishEnsures()
	// loop N no-break: structural obligation on the control-flow graph
	for _, li := range g.loops {
		lc := g.loopContract(li)
		if lc == nil || !lc.NoBreak {
			continue
		}
		bad := ""
		for b := range li.blocks {
			if b == li.header {
				continue
			}
			for _, s := range b.Succs {
				if li.blocks[s] {
					continue
				}
				// leaving the loop from the body: allowed only towards a block that returns (possibly after straight-line code)
				t := s
				for steps := 0; steps < 8; steps++ {
					if len(t.Instrs) == 0 {
						break
					}
					if _, isRet := t.Instrs[len(t.Instrs)-1].(*ssa.Return); isRet {
						break
					}
					if j, isJump := t.Instrs[len(t.Instrs)-1].(*ssa.Jump); isJump && len(t.Succs) == 1 && !li.blocks[t.Succs[0]] {
						_ = j
						t = t.Succs[0]
						continue
					}
					break
				}
				last := t.Instrs[len(t.Instrs)-1]
				if _, isRet := last.(*ssa.Return); !isRet {
					if _, isPanic := last.(*ssa.Panic); !isPanic {
						bad = g.lastLine(b)
					}
				}
			}
		}
		goal := "true"
		if bad != "" {
			goal = "false"
		}
		o := g.addObl("scan", fmt.Sprintf("loop%d:no-break", li.ordinal), &State{pc: "true"}, goal, token.NoPos)
		o.Text = "the loop is left only through its header condition or by returning"
		if bad != "" {
			o.Text += " (left from the body near: " + bad + ")"
		}
	}
	// every site contract written for this function must have matched a call (a silently unmatched one proves nothing)
	for k, ct := range g.eng.db.Contracts {
		if ct.Site && (strings.HasPrefix(k, "sitereq:"+g.fn.String()+":") || strings.HasPrefix(k, "site:"+g.fn.String()+":")) && !g.usedSites[k] {
			g.refusef("site contract %s matches no call in the function", k)
		}
	}
}

func (g *Gen) rpo() []*ssa.BasicBlock {
	seen := map[*ssa.BasicBlock]bool{}
	var post []*ssa.BasicBlock
	var dfs func(b *ssa.BasicBlock)
	dfs = func(b *ssa.BasicBlock) {
		seen[b] = true
		for _, s := range b.Succs {
			if s.Dominates(b) {
				continue // back edge
			}
			if !seen[s] {
				dfs(s)
			}
		}
		post = append(post, b)
	}
	dfs(g.fn.Blocks[0])
	if g.fn.Recover != nil && !seen[g.fn.Recover] {
		// recover block: ignored
	}
	for i, j := 0, len(post)-1; i < j; i, j = i+1, j-1 {
		post[i], post[j] = post[j], post[i]
	}
	return post
}

func (g *Gen) edgeCond(from, to *ssa.BasicBlock) string {
	st := g.out[from]
	if st == nil {
		return "false"
	}
	if iff, ok := from.Instrs[len(from.Instrs)-1].(*ssa.If); ok {
		c := g.term(iff.Cond)
		if from.Succs[0] == to && from.Succs[1] == to {
			return st.pc
		}
		if from.Succs[0] == to {
			return fmt.Sprintf("(and %s %s)", st.pc, c)
		}
		return fmt.Sprintf("(and %s (not %s))", st.pc, c)
	}
	return st.pc
}

func (g *Gen) processBlock(b *ssa.BasicBlock, entrySt *State) {
	var st *State
	li := g.loops[b]
	var edges []edge
	var preds []*ssa.BasicBlock
	if b == g.fn.Blocks[0] {
		st = entrySt
	} else {
		for _, p := range b.Preds {
			if b.Dominates(p) && li != nil {
				continue // back edge
			}
			if g.out[p] == nil {
				continue
			}
			c := g.sc.define(fmt.Sprintf("e_%d_%d", p.Index, b.Index), "Bool", g.edgeCond(p, b))
			edges = append(edges, edge{c, g.out[p]})
			preds = append(preds, p)
		}
		st = g.sc.merge(fmt.Sprintf("b%d", b.Index), edges)
	}
	// phis
	phiTerm := func(phi *ssa.Phi, onlyPreds []*ssa.BasicBlock, conds []string) string {
		var vals []string
		for i, p := range onlyPreds {
			_ = i
			for j, bp := range b.Preds {
				if bp == p {
					vals = append(vals, g.term(phi.Edges[j]))
					break
				}
			}
		}
		if len(vals) == 0 {
			return g.sc.sorts.zero(phi.Type())
		}
		t := vals[len(vals)-1]
		for i := len(vals) - 2; i >= 0; i-- {
			t = fmt.Sprintf("(ite %s %s %s)", conds[i], vals[i], t)
		}
		return t
	}
	conds := make([]string, len(edges))
	for i, e := range edges {
		conds[i] = e.cond
	}
	if li != nil {
		// loop header: check invariants on entry, havoc, assume
		entryVals := map[*ssa.Phi]string{}
		for _, ins := range b.Instrs {
			if phi, ok := ins.(*ssa.Phi); ok {
				entryVals[phi] = g.sc.define("phi_in_"+phi.Comment, g.sc.sorts.sortOf(phi.Type()), phiTerm(phi, preds, conds))
			}
		}
		g.checkInvariants(li, st, entryVals, "inv-init")
		g.havocLoop(li, st)
		for _, ins := range b.Instrs {
			if phi, ok := ins.(*ssa.Phi); ok {
				g.val[phi] = g.freshOf("phi_"+phi.Comment, phi.Type())
				g.assumeKnownRef(st, phi.Type(), g.val[phi])
			}
		}
		g.assumeInvariants(li, st)
	} else {
		for _, ins := range b.Instrs {
			if phi, ok := ins.(*ssa.Phi); ok {
				g.setVal(phi, phiTerm(phi, preds, conds))
			}
		}
	}
	g.in[b] = st.clone()
	// body-assert hints of a loop whose body starts here
	for _, l2 := range g.loops {
		if len(l2.header.Succs) > 0 && l2.header.Succs[0] == b && l2.blocks[b] && b != l2.header && len(b.Preds) == 1 {
			if lc := g.loopContract(l2); lc != nil {
				for _, c := range lc.BodyAsserts {
					env := g.loopEnv(l2, st, nil)
					t, err := env.formula(c.E)
					if err != nil {
						g.refusef("loop %d body-assert %q: %v", l2.ordinal, c.Text, err)
						return
					}
					label := c.Label
					if label == "" {
						label = c.Text
					}
					o := g.addObl("body-assert", fmt.Sprintf("loop%d:%s", l2.ordinal, label), st, t, token.NoPos)
					o.Text = c.Text
					if c.Kind != "body-check" {
						g.sc.assume(st.pc, t)
					}
				}
			}
		}
	}
	for _, ins := range b.Instrs {
		g.instr(st, ins)
		if g.refuse != "" {
			return
		}
	}
	g.out[b] = st
	// back edges out of this block
	for _, s := range b.Succs {
		if s.Dominates(b) {
			if l2 := g.loops[s]; l2 != nil {
				c := g.sc.define(fmt.Sprintf("be_%d_%d", b.Index, s.Index), "Bool", g.edgeCond(b, s))
				bst := st.clone()
				bst.pc = c
				vals := map[*ssa.Phi]string{}
				for _, ins := range s.Instrs {
					if phi, ok := ins.(*ssa.Phi); ok {
						for j, bp := range s.Preds {
							if bp == b {
								vals[phi] = g.term(phi.Edges[j])
							}
						}
					}
				}
				g.checkInvariants(l2, bst, vals, "inv-keep")
				g.pathPoints = append(g.pathPoints, pathPoint{label: fmt.Sprintf("backedge:loop%d:%s", l2.ordinal, g.lastLine(b)), pc: c, prefix: len(g.sc.lines)})
			}
		}
	}
}

// havocLoop forgets everything the loop may modify. For heap tags whose writes in the
// loop all go to objects that are identifiable at the loop head (or are allocated inside
// the loop), a frame fact keeps the cells of all other pre-existing objects.
type tagWrites struct {
	roots    map[string]bool // terms (rb ...) of written objects known at the loop head
	unknown  bool
	oldRoots bool // some written object may be older than the function entry
}

type loopWrites struct {
	all    bool
	tags   map[string]*tagWrites
	locals map[*ssa.Alloc]bool
}

func (g *Gen) havocLoop(li *loopInfo, st *State) {
	lw := g.analyseLoopWrites(li)
	all, tags, locals := lw.all, lw.tags, lw.locals
	g.applyLoopHavoc(li, st, all, tags, locals)
}

func (g *Gen) analyseLoopWrites(li *loopInfo) *loopWrites {
	if li.writes != nil {
		return li.writes
	}
	all := false
	tags := map[string]*tagWrites{}
	touch := func(tag string) *tagWrites {
		w := tags[tag]
		if w == nil {
			w = &tagWrites{roots: map[string]bool{}}
			tags[tag] = w
		}
		return w
	}
	locals := map[*ssa.Alloc]bool{}
	var blocks []*ssa.BasicBlock
	for b := range li.blocks {
		blocks = append(blocks, b)
	}
	sort.Slice(blocks, func(i, j int) bool { return blocks[i].Index < blocks[j].Index })
	outside := func(v ssa.Value) bool {
		ins, ok := v.(ssa.Instruction)
		if !ok {
			return true
		}
		return !li.blocks[ins.Block()] && ins.Block().Dominates(li.header)
	}
	// rootOf: "(rb ...)" term of the object an address points into; "" = allocated inside the loop; "?" = unknown
	var rootOf func(v ssa.Value) string
	rootOf = func(v ssa.Value) string {
		switch x := v.(type) {
		case *ssa.FieldAddr:
			return rootOf(x.X)
		case *ssa.IndexAddr:
			if _, isSlice := x.X.Type().Underlying().(*types.Slice); isSlice {
				if outside(x.X) {
					if _, ok := g.val[x.X]; ok || isConstLike(x.X) {
						return fmt.Sprintf("(rb (sarr %s))", g.term(x.X))
					}
				}
				switch x.X.(type) {
				case *ssa.MakeSlice:
					return ""
				}
				if c, ok := x.X.(*ssa.Call); ok {
					if b, ok := c.Call.Value.(*ssa.Builtin); ok && b.Name() == "append" {
						return ""
					}
				}
				return "?"
			}
			return rootOf(x.X)
		case *ssa.Alloc:
			if outside(x) {
				if t, ok := g.val[x]; ok {
					return fmt.Sprintf("(rb %s)", t)
				}
				return "?"
			}
			return ""
		case *ssa.Global:
			return fmt.Sprintf("(rb %s)", g.globalRef(x))
		}
		if outside(v) {
			if _, ok := g.val[v]; ok {
				return fmt.Sprintf("(rb %s)", g.term(v))
			}
		}
		return "?"
	}
	curFresh := false
	note := func(tagset map[string]bool, root string) {
		for t := range tagset {
			w := touch(t)
			switch root {
			case "?":
				w.unknown = true
			case "":
			default:
				w.roots[root] = true
				if !curFresh {
					w.oldRoots = true
				}
			}
		}
	}
	for _, b := range blocks {
		for _, ins := range b.Instrs {
			switch x := ins.(type) {
			case *ssa.Store:
				if p := g.localPathOf(x.Addr); p != nil {
					locals[p.alloc] = true
					continue
				}
				ts := map[string]bool{}
				g.collectStoreTags(x.Addr, x.Val.Type(), ts)
				curFresh = g.isFreshRoot(x.Addr)
				note(ts, rootOf(x.Addr))
				curFresh = false
			case *ssa.MapUpdate:
				mt := x.Map.Type().Underlying().(*types.Map)
				d, v, l := g.mapTags(mt)
				root := "?"
				if outside(x.Map) {
					if _, ok := g.val[x.Map]; ok {
						root = fmt.Sprintf("(rb %s)", g.term(x.Map))
					}
				} else if _, isMake := x.Map.(*ssa.MakeMap); isMake {
					root = ""
				}
				curFresh = g.isFreshRoot(x.Map)
				note(map[string]bool{d: true, v: true, l: true}, root)
				curFresh = false
			case *ssa.Alloc, *ssa.MakeMap, *ssa.MakeSlice, *ssa.MakeClosure, *ssa.MakeInterface:
				touch("!frontier")
				if a, ok := x.(*ssa.Alloc); ok {
					if g.escape[a] {
						ts := map[string]bool{}
						g.collectStoreTags(a, a.Type().Underlying().(*types.Pointer).Elem(), ts)
						note(ts, "")
					} else {
						locals[a] = true
					}
				}
				if mm, ok := x.(*ssa.MakeMap); ok {
					d, v, l := g.mapTags(mm.Type().Underlying().(*types.Map))
					note(map[string]bool{d: true, v: true, l: true}, "")
				}
				if ms, ok := x.(*ssa.MakeSlice); ok {
					ts := map[string]bool{}
					g.collectElemTags(ms.Type().Underlying().(*types.Slice).Elem(), ts)
					note(ts, "")
				}
			case *ssa.Range:
				touch(g.visTag(x)).unknown = true
			case *ssa.Next:
				if rng, ok := x.Iter.(*ssa.Range); ok && !x.IsString {
					touch(g.visTag(rng)).unknown = true
				}
			case ssa.CallInstruction:
				if bi, ok := x.Common().Value.(*ssa.Builtin); ok && bi.Name() == "append" {
					// append writes only a fresh backing array
					ts, _ := g.calleeModTags(x)
					note(ts, "")
					touch("!frontier")
					continue
				}
				mods, modAll := g.calleeModTags(x)
				if modAll {
					all = true
				}
				note(mods, "?")
				touch("!frontier")
				if k := calleeKey(x.Common()); k != "" && strings.Contains(k, repoMod) {
					tag := "N!" + shortName(k)
					g.sc.regTag(tag, "Int")
					touch(tag).unknown = true
				}
			}
		}
	}
	li.writes = &loopWrites{all: all, tags: tags, locals: locals}
	return li.writes
}

func (g *Gen) applyLoopHavoc(li *loopInfo, st *State, all bool, tags map[string]*tagWrites, locals map[*ssa.Alloc]bool) {
	entryFrontier := g.frontier(st)
	if all {
		g.havocAll(st)
	}
	var tl []string
	for t := range tags {
		tl = append(tl, t)
	}
	sort.Strings(tl)
	for _, t := range tl {
		if t == "!frontier" {
			fr := g.frontier(st)
			nf := g.sc.fresh("frontier", "Int")
			g.sc.emit("(assert (>= %s %s))", nf, fr)
			st.mem[t] = nf
			continue
		}
		srt, ok := g.sc.tagSort[t]
		if !ok {
			continue
		}
		if all && !strings.HasPrefix(t, "V!") {
			continue
		}
		old := g.sc.lookup(st, t)
		g.havocTag(st, t)
		w := tags[t]
		if !w.unknown && strings.HasPrefix(srt, "(Array Ref ") {
			cond := fmt.Sprintf("(< (rb r) %s)", entryFrontier)
			var roots []string
			for r := range w.roots {
				roots = append(roots, r)
			}
			sort.Strings(roots)
			for _, r := range roots {
				// a write through a nil root panics: nothing is written through it
				if strings.HasPrefix(r, "(rb ") && strings.HasSuffix(r, ")") {
					cond = fmt.Sprintf("(and %s (or (= %s null) (not (= (rb r) %s))))", cond, r[4:len(r)-1], r)
				} else {
					cond = fmt.Sprintf("(and %s (not (= (rb r) %s)))", cond, r)
				}
			}
			nw := st.mem[t]
			g.sc.emit("(assert (forall ((r Ref)) (! (=> %s (= (select %s r) (select %s r))) :pattern ((select %s r)))))", cond, nw, old, nw)
			if !w.oldRoots {
				// objects written in the loop: the listed roots (allocated by this function before the loop) and
				// objects allocated inside the loop (rb >= frontier at loop entry)
				bs := append([]string{entryFrontier}, roots...)
				g.sc.setStep(nw, old, bs...)
			}
		}
	}
	for a := range locals {
		et := a.Type().Underlying().(*types.Pointer).Elem()
		st.locals[a] = g.freshOf("loc_"+a.Comment, et)
	}
}

func isConstLike(v ssa.Value) bool {
	switch v.(type) {
	case *ssa.Const, *ssa.Global, *ssa.Parameter, *ssa.FreeVar:
		return true
	}
	return false
}

func (g *Gen) collectElemTags(t types.Type, tags map[string]bool) {
	switch u := t.Underlying().(type) {
	case *types.Struct:
		for i := 0; i < u.NumFields(); i++ {
			if _, isS := u.Field(i).Type().Underlying().(*types.Struct); isS {
				g.collectElemTags(u.Field(i).Type(), tags)
			} else if arr, isA := u.Field(i).Type().Underlying().(*types.Array); isA && !isByteLike(arr.Elem()) {
				g.collectElemTags(arr.Elem(), tags)
			} else {
				tags[g.fieldTag(t, i)] = true
			}
		}
	case *types.Array:
		if !isByteLike(u.Elem()) {
			g.collectElemTags(u.Elem(), tags)
			return
		}
		tags[g.cellTag(t)] = true
	default:
		tags[g.cellTag(t)] = true
	}
}

func (g *Gen) collectStoreTags(addr ssa.Value, t types.Type, tags map[string]bool) {
	switch t.Underlying().(type) {
	case *types.Struct:
		g.collectElemTags(t, tags)
		return
	case *types.Array:
		g.collectElemTags(t, tags)
		return
	}
	tags[g.leafTagFor(addr, t)] = true
}

func (g *Gen) visTag(r *ssa.Range) string {
	mt, ok := r.X.Type().Underlying().(*types.Map)
	if !ok {
		g.refusef("range over %s unsupported", r.X.Type())
		return "V!bad"
	}
	tag := fmt.Sprintf("V!%s", r.Name())
	g.sc.regTag(tag, fmt.Sprintf("(Array %s Bool)", g.sc.sorts.sortOf(mt.Key())))
	return tag
}

func (g *Gen) localPathOf(v ssa.Value) *localPath {
	if p, ok := g.lp[v]; ok {
		return p
	}
	if a, ok := v.(*ssa.Alloc); ok && !g.escape[a] {
		p := &localPath{alloc: a}
		g.lp[v] = p
		return p
	}
	switch x := v.(type) {
	case *ssa.FieldAddr:
		if pp := g.localPathOf(x.X); pp != nil {
			p := &localPath{alloc: pp.alloc, steps: append(append([]lstep{}, pp.steps...), lstep{field: x.Field})}
			g.lp[v] = p
			return p
		}
	case *ssa.IndexAddr:
		if pp := g.localPathOf(x.X); pp != nil {
			p := &localPath{alloc: pp.alloc, steps: append(append([]lstep{}, pp.steps...), lstep{field: -1, index: g.term(x.Index)})}
			return p // index term may change per evaluation; do not cache
		}
	}
	return nil
}

// ---------------------------------------------------------------------------
// invariants

// countingLoop recognises `for i := 0; i < n; i++` (every back edge carries i+1, the header tests i < n with n a value
// computed before the loop or the length of a slice computed before the loop).  Returns the counter and the term of n ("" if
// the bound has no term at the loop head).
func (g *Gen) countingLoop(li *loopInfo) (*ssa.Phi, string) {
	h := li.header
	if len(h.Instrs) == 0 {
		return nil, ""
	}
	iff, ok := h.Instrs[len(h.Instrs)-1].(*ssa.If)
	if !ok {
		return nil, ""
	}
	cmp, ok := iff.Cond.(*ssa.BinOp)
	if !ok || cmp.Op != token.LSS {
		return nil, ""
	}
	phi, ok := cmp.X.(*ssa.Phi)
	if !ok || phi.Block() != h || phi.Comment == "rangeindex" || phi.Comment == "" {
		return nil, ""
	}
	if b, ok := phi.Type().Underlying().(*types.Basic); !ok || b.Info()&types.IsInteger == 0 {
		return nil, ""
	}
	for j, p := range h.Preds {
		e := phi.Edges[j]
		if h.Dominates(p) && li.blocks[p] { // back edge: i + 1
			add, ok := e.(*ssa.BinOp)
			if !ok || add.Op != token.ADD || add.X != phi {
				return nil, ""
			}
			if c, ok := add.Y.(*ssa.Const); !ok || c.Value == nil || c.Value.String() != "1" {
				return nil, ""
			}
		} else { // entry: 0
			if c, ok := e.(*ssa.Const); !ok || c.Value == nil || c.Value.String() != "0" {
				return nil, ""
			}
		}
	}
	outside := func(v ssa.Value) bool {
		ins, isIns := v.(ssa.Instruction)
		return !isIns || (!li.blocks[ins.Block()] && ins.Block().Dominates(h))
	}
	if outside(cmp.Y) {
		if _, isConst := cmp.Y.(*ssa.Const); isConst || g.val[cmp.Y] != "" {
			return phi, g.term(cmp.Y)
		}
		return phi, ""
	}
	if call, ok := cmp.Y.(*ssa.Call); ok && call.Block() == h {
		if b, ok := call.Call.Value.(*ssa.Builtin); ok && b.Name() == "len" && outside(call.Call.Args[0]) {
			a := call.Call.Args[0]
			if _, isSlice := a.Type().Underlying().(*types.Slice); isSlice {
				if _, isConst := a.(*ssa.Const); isConst || g.val[a] != "" {
					return phi, fmt.Sprintf("(slen %s)", g.term(a))
				}
			}
		}
	}
	return phi, ""
}

func (g *Gen) loopContract(li *loopInfo) *LoopContract {
	if g.ct == nil {
		return nil
	}
	return g.ct.Loops[li.ordinal]
}

func (g *Gen) invariantTerms(li *loopInfo, st *State, phiVals map[*ssa.Phi]string) (terms []string, clauses []*Clause, err error) {
	env := g.loopEnv(li, st, phiVals)
	// automatic facts for range-index loops
	for _, ins := range li.header.Instrs {
		if phi, ok := ins.(*ssa.Phi); ok && phi.Comment == "rangeindex" {
			pv := phiVals[phi]
			if pv == "" {
				pv = g.val[phi]
			}
			terms = append(terms, fmt.Sprintf("(>= %s (- 1))", pv))
			clauses = append(clauses, &Clause{Kind: "invariant", Label: "auto-rangeindex", Text: "rangeindex >= -1"})
			// rangeindex < n where the header tests  rangeindex+1 < n
			if iff, ok := li.header.Instrs[len(li.header.Instrs)-1].(*ssa.If); ok {
				if cmp, ok := iff.Cond.(*ssa.BinOp); ok && cmp.Op == token.LSS {
					if add, ok := cmp.X.(*ssa.BinOp); ok && add.X == phi {
						if nins, isIns := cmp.Y.(ssa.Instruction); !isIns || (nins.Block() != li.header && nins.Block().Dominates(li.header)) {
							terms = append(terms, fmt.Sprintf("(< %s %s)", pv, g.term(cmp.Y)))
							clauses = append(clauses, &Clause{Kind: "invariant", Label: "auto-rangeindex-upper", Text: "rangeindex < n"})
						}
					}
				}
			}
		}
	}
	// the same facts for the classic counting loop `for i := 0; i < n; i++` (offered as invariants and checked like any other)
	if phi, bound := g.countingLoop(li); phi != nil {
		pv := phiVals[phi]
		if pv == "" {
			pv = g.val[phi]
		}
		terms = append(terms, fmt.Sprintf("(>= %s 0)", pv))
		clauses = append(clauses, &Clause{Kind: "invariant", Label: "auto-rangeindex", Text: phi.Comment + " >= 0"})
		if bound != "" {
			terms = append(terms, fmt.Sprintf("(<= %s %s)", pv, bound))
			clauses = append(clauses, &Clause{Kind: "invariant", Label: "auto-rangeindex-upper", Text: phi.Comment + " <= n"})
		}
	}
	if lc := g.loopContract(li); lc != nil && lc.PreservesOld {
		// frame invariant: every heap cell of an object older than the function entry keeps its entry value
		lw := g.analyseLoopWrites(li)
		var tl []string
		for t := range lw.tags {
			tl = append(tl, t)
		}
		sort.Strings(tl)
		for _, t := range tl {
			srt, ok := g.sc.tagSort[t]
			if !ok || !strings.HasPrefix(srt, "(Array Ref ") {
				continue
			}
			cur := g.sc.lookup(st, t)
			was := g.sc.lookup(g.entry, t)
			if cur == was {
				continue
			}
			if excl, err := g.modifiedRefs(t); err != nil || len(excl) > 0 {
				continue // the contract allows writes to pre-existing objects in this tag
			}
			terms = append(terms, fmt.Sprintf("(forall ((r Ref)) (! (=> (< (rb r) %s) (= (select %s r) (select %s r))) :pattern ((select %s r))))", g.oldFrontier, cur, was, cur))
			clauses = append(clauses, &Clause{Kind: "invariant", Label: "preserves-old:" + t, Text: "objects older than the function entry are unchanged in " + t})
			if phiVals == nil { // assumed at the loop head
				if g.sc.oldBase(cur) != g.sc.oldBase(was) {
					g.sc.setStep(cur, was, g.oldFrontier)
				}
			}
		}
	}
	if lc := g.loopContract(li); lc != nil {
		for _, c := range lc.Invariants {
			t, e := env.formula(c.E)
			if e != nil {
				return nil, nil, fmt.Errorf("loop %d invariant %q: %v", li.ordinal, c.Text, e)
			}
			terms = append(terms, t)
			clauses = append(clauses, c)
		}
	}
	return
}

func (g *Gen) checkInvariants(li *loopInfo, st *State, phiVals map[*ssa.Phi]string, kind string) {
	terms, clauses, err := g.invariantTerms(li, st, phiVals)
	if err != nil {
		g.refusef("%v", err)
		return
	}
	// back edges are told apart by the source line of the last statement before the jump
	at := ""
	if kind == "inv-keep" && g.curBlock != nil {
		for i := len(g.curBlock.Instrs) - 1; i >= 0 && at == ""; i-- {
			if _, isDbg := g.curBlock.Instrs[i].(*ssa.DebugRef); isDbg {
				continue
			}
			at = g.srcLine(g.curBlock.Instrs[i].Pos())
		}
		if at == "" {
			for _, p := range g.curBlock.Preds {
				for i := len(p.Instrs) - 1; i >= 0 && at == ""; i-- {
					if _, isDbg := p.Instrs[i].(*ssa.DebugRef); isDbg {
						continue
					}
					at = g.srcLine(p.Instrs[i].Pos())
				}
			}
		}
		if len(at) > 48 {
			at = at[:48]
		}
		if at != "" {
			at = " @ " + at
		}
	}
	for i, t := range terms {
		label := clauses[i].Label
		if label == "" {
			label = clauses[i].Text
		}
		label += at
		o := g.addObl(kind, fmt.Sprintf("loop%d:%s", li.ordinal, label), st, t, token.NoPos)
		o.Text = clauses[i].Text
	}
}

func (g *Gen) assumeInvariants(li *loopInfo, st *State) {
	terms, _, err := g.invariantTerms(li, st, nil)
	if err != nil {
		g.refusef("%v", err)
		return
	}
	for _, t := range terms {
		g.sc.assume(st.pc, t)
	}
}

// ---------------------------------------------------------------------------
// postconditions

func (g *Gen) finishEnsures() {
	if g.ct == nil {
		return
	}
	doClause := func(c *Clause, kind string, idx int) {
		var parts []string
		for _, rp := range g.rets {
			env := g.exitEnv(rp.st, rp.results)
			t, err := env.formula(c.E)
			if err != nil {
				g.refusef("%s %q: %v", kind, c.Text, err)
				return
			}
			parts = append(parts, fmt.Sprintf("(=> %s %s)", rp.st.pc, t))
		}
		goal := "true"
		if len(parts) > 0 {
			goal = "(and " + strings.Join(parts, " ") + ")"
		}
		label := c.Label
		if label == "" {
			label = c.Text
		}
		o := g.addObl(kind, label, &State{pc: "true"}, goal, token.NoPos)
		o.Text = c.Text
		o.Canary = kind == "canary"
		if kind == "ensures" && len(parts) > 1 {
			o.Parts = parts // one conjunct per return point: the solver may discharge them one by one
		}
	}
	for i, c := range g.ct.Ensures {
		doClause(c, "ensures", i)
	}
	for i, c := range g.ct.Canaries {
		doClause(c, "canary", i)
	}
	// frame: everything not in modifies is unchanged for pre-existing objects
	if !g.ct.ModAll {
		g.frameObligation()
	}
}

func (g *Gen) lastLine(b *ssa.BasicBlock) string {
	for i := len(b.Instrs) - 1; i >= 0; i-- {
		if _, isDbg := b.Instrs[i].(*ssa.DebugRef); isDbg {
			continue
		}
		if l := g.srcLine(b.Instrs[i].Pos()); l != "" {
			if len(l) > 48 {
				l = l[:48]
			}
			return l
		}
	}
	return fmt.Sprintf("block%d", b.Index)
}
