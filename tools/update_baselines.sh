#!/bin/bash
# Re-records, for the pinned tree, the names of the obligations that discharge and the dead paths per property.
cd /verif
for p in "$@"; do ./check $p --update-baseline | tail -1; done
