#!/bin/bash
# usage: seed_matrix.sh <seed-id> <PID>...   — runs ./check <PID> against a scratch copy of /repo carrying seeded/<seed-id>/patch.diff
# (same effect as: git -C /repo apply <patch>; ./check PID; git -C /repo checkout -- .  — but leaves /repo and the committed
#  evidence alone so that several seeds can be tried in parallel). Prints "<seed> <PID> caught|missed|engine-error <first line>".
S=$1; shift
W=$(mktemp -d /tmp/vseed.XXXXXX); trap 'rm -rf $W' EXIT
rsync -a --exclude .git /repo/ $W/repo/
(cd $W/repo && patch -p1 -s --no-backup-if-mismatch < /verif/seeded/$S/patch.diff) || { echo "$S - patch-failed"; exit 2; }
for P in "$@"; do
  out=$(VERIF_REPO=$W/repo VERIF_OUT=$W/out /verif/check $P 2>&1); rc=$?
  v=$(echo "$out" | grep -c '^VIOLATION')
  first=$(echo "$out" | grep '^VIOLATION' | head -3 | sed 's#replay=[^ ]*/##' | tr '\n' ';')
  if [ $rc = 1 ] && [ $v -gt 0 ]; then echo "$S $P caught $first"; elif [ $rc = 0 ]; then echo "$S $P missed"; else echo "$S $P rc=$rc $(echo "$out" | tail -2 | tr '\n' ' ')"; fi
done
