#!/bin/bash
# usage: try_harmless.sh <diff-file> <PID>...   — applies a behaviour-preserving edit to a scratch copy of /repo and runs the checks
# named; every one of them must exit 0 (a VIOLATION here is a false alarm of the machinery).
D=$(readlink -f $1); shift
W=$(mktemp -d /tmp/vharm.XXXXXX); trap 'rm -rf $W' EXIT
rsync -a --exclude .git /repo/ $W/repo/
(cd $W/repo && patch -p1 -s --no-backup-if-mismatch < $D) || { echo "patch-failed"; exit 2; }
(cd $W/repo && GOFLAGS=-mod=mod GOPROXY=off GOSUMDB=off GOTOOLCHAIN=local go build ./... 2>&1 | grep -v "sqlite3\|warning\|return pNew\|Select standin\|\^\|^ *[0-9]* |" | head -5)
rc=0
for P in "$@"; do
  out=$(VERIF_REPO=$W/repo VERIF_OUT=$W/out /verif/check $P 2>&1); r=$?
  echo "$(basename $D) $P exit=$r $(echo "$out" | tail -1 | cut -c1-100)"
  if [ $r != 0 ]; then echo "$out" | grep "failed:\|VIOLATION\|missing:" | head -8; rc=1; fi
done
exit $rc
