#!/bin/bash
# usage: replay_pkg.sh <pkgdir> <test-file> <TestName> [repo]  — like replay.sh but without the node harness
PKG=$1; TEST=$2; NAME=$3; REPO=${4:-${VERIF_REPO:-/repo}}
export GOFLAGS=-mod=mod GOPROXY=off GOSUMDB=off GOTOOLCHAIN=local
W=$(mktemp -d /tmp/vreplay.XXXXXX); trap 'rm -rf $W' EXIT
cat > $W/ov.json <<J
{"Replace":{"$REPO/$PKG/zz_verif_case_test.go":"$TEST"}}
J
cd $REPO && go test -overlay $W/ov.json -vet=off -count=1 -timeout 120s -run "^$NAME\$" -v ./$PKG/ 2>&1
