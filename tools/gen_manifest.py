#!/usr/bin/env python3
"""Regenerates /verif/MANIFEST.json from the table below (claimed properties, texts, not-applicable reasons)."""
import json, subprocess
props=[json.loads(l) for l in open('/verif/properties.jsonl')]
hook_commits=subprocess.run("git -C /repo log --format=%h --grep='^verif:' 3cfce24..HEAD",shell=True,capture_output=True,text=True).stdout.split()
TRUST=("Trusted: go/types+go/ssa (x/tools v0.29.0) as semantics of the source; the govc VC generator; z3 5.1.0 / cvc5 1.0.3 / z3 4.8.12; "
       "assumed extern contracts (math/big, fmt/errors, database/sql, factom, fat103) and storage-leaf contracts over the ghost ledger (functions whose body is SQL text), "
       "each listed in the evidence trusted_base; SQLite/database-sql transaction semantics. ")
claimed={
 "C03":("Unbounded proof, per function and for all inputs, of: Transaction.Validate (sum of transfers == input, no underflow), TransactionBatch.ValidData/Validate (single input address, every tx valid), "
        "SubFromBalance (debit only when balance suffices, never negative, exact ledger effect), recordBatch (exact balance/supply effect as a recursive spec function), applyTransactionBatch (a reject code implies the ledger is untouched).",
        "Reachability of ledger pre-states (whole histories) is not decided; contracts hold for every pre-state with non-negative balances. Clause undecided: equivalence of the in-memory funds simulation with the database debits in the bank era (F8).","6/C03"),
 "C04":("Unbounded proof that recordBatch changes balances and per-asset supply by exactly the specified amounts (debit once, each non-burn output credited, conversion credited convSpec, deferred PEG request only debited), via loop invariants over recursive spec functions; SubFromBalance/AddToBalance effects.",
        "Per-block contracts only: the sum over a whole chain is a paper composition. Issuance functions (mint, payouts, burns) are covered under C11/C14/C15 as they come under contract.","6/C04"),
 "C05":("Unbounded proof of the validation glue: every input address of a batch is in the set handed to fat103.Validate with the RCD flag selected by height (ValidExtIDs), Validate/NewTransactionBatch establish validatedAt, applyTransactionBatch requires validatedAt at the executing height, invalid entries are skipped without ledger writes.",
        "Cryptographic unforgeability (ed25519/secp256k1, sha512) and fat103.Validate are trusted. The RCD-e recovery-byte malleability of the replay key (F9) is outside the contracts claimed here.","6/C05"),
 "C06":("Unbounded proof that applyTransactionBatch is only called for entry hashes without relation rows (callee precondition at both call sites), that recordBatch writes the relation row, and that the holding window [lastRated, current) is visited height by height with every held batch unexecuted until its turn.",
        "The ledger invariant 'batches held inside the open window are unexecuted' is a precondition of ApplyTransactionBatchesInHolding; duplicates of pending/rejected entries (F6) concern liveness (C08), not double execution.","6/C06"),
 "C07":("Unbounded proof that Convert equals floor(amount*min(spot,avg)/max(spot,avg)) exactly with its error cases, never yields more value than put in; conversions are executed only through the holding path with the executing block's rates and the averages at the last rated height (call-site preconditions).",
        "SelectPendingRates/SelectMostRecentRatesBeforeHeight/GetPegNetRateAverages are contracts assumed here (the averages function is verified under C09 as far as it is in reach).","6/C07"),
 "C13":("Unbounded proof that a batch applied by applyTransactionBatch contains only admissible conversions (non-zero rates, pFCT / small-asset one-way rules by height, Convert succeeds), that each reject leaves the ledger untouched, ValidatePegTx rejects PEG destinations, IsRejectedTx maps codes exactly.",
        "Completeness ('every other well-formed conversion is executed') is not claimed.","6/C13"),
 "C16":("Unbounded proof of PayoutBig/Payout (proportional share, bounded by the bank), Payouts (for every request map and every iteration order: full amounts below the bank, total exactly the bank otherwise, domain preserved), Refund (exact formula and value bound yield*pegRate+refund*inRate <= in*inRate), AddConversion/NewConversionSupply data-structure invariant.",
        "recordPegnetRequests and the bank table writers are assumed contracts so far. Ghost axioms for finite sums over map domains are listed in the evidence.","6/C16"),
 "C17":("Unbounded proof of the status representation invariant (executed > 0 iff relation rows exist) across applyTransactionBatch, ApplyTransactionBlock and ApplyTransactionBatchesInHolding, including 'no dropped status-write error'; recorded converted amount is the credited SSA value.",
        "'Replaying recorded history reproduces balances' and paging exactly-once are whole-history / SQL-semantics statements and are not decided. Known finding F11 (nil returned unapplied).","6/C17"),
 "C19":("Unbounded proof of CheckHardForks against the property's iff-specification over the ghost version table: the legacy back-fill inserts a (fork height, -1) marker for every fork height reached by a database without version rows, and the node is refused iff some fork at or below the top height has a block at or above it synced with too old a version (markers count as -1) or a newer build synced something; a legacy database that reached a fork block is refused (F13, fixed).",
        "The six query/insert leaves of node/pegnet/admin.go and metadata.go are assumed contracts (SQL); envHealthy is assumed for the iff (a failing statement at start-up is outside this property). InsertSynced/NewPegnetd glue is covered under C02.","6/C19"),
 "C20":("Unbounded proof of the exact-or-rejected conversion of decimal strings to base units in FactoidToFactoshi (no silent wrap-around: overflow obligations on every arithmetic operation; result equals whole*1e8 + frac*10^(8-len) in terms of ghost digit-string functions; F2, fixed) and of the structural validation of decoded batches (exactly one of transfers/conversion, sum of transfers == input, amounts within int64, one input address).",
        "Acceptance of exactly the canonical JSON language and the encode/decode round trip need a formal model of encoding/json and jsonlen and are NOT decided. regexp/strconv/math.Pow10 behaviour on these three patterns is an assumed extern contract (strings.spec).","6/C20"),
}
na={p['id']:"check not built yet (work in progress; see DESIGN.md section 10)" for p in props if p['id'] not in claimed}
checks=[]
for pid,(text,note,ref) in claimed.items():
    checks.append({"property_id":pid,"quick_cmd":f"./check {pid}","thorough_cmd":f"./check {pid} --tier thorough",
      "evidence_file":f"/verif/evidence/{pid}.json","replay_cmd_template":"cat {path}","engine":"govc",
      "level_claimed":{"category":"proof","text":text,"design_ref":"DESIGN.md §"+ref},
      "level_note":TRUST+note,
      "technique":"contract-based deductive verification: weakest-precondition VCs generated from go/ssa of /repo, contracts in //@ comment files (build tag verif), discharged by z3/cvc5"})
m={"version":1,"setup_cmd":"./setup.sh",
 "hooks":{"guard":"verif","enable":"go build -tags=verif ./... (the tag only adds comment-only contract files zz_contracts_verif.go)","baseline_off_cmd":"cd /repo && go test -vet=off -count=1 ./...","source_commits":hook_commits,"add_only":True},
 "engines":[{"name":"govc","path":"/verif/govc","serves_properties":sorted(claimed),"kind_free_text":"self-built deductive verifier for Go: VC generation over go/ssa with contracts, loop invariants, ghost ledger; SMT back ends z3 5.1.0, cvc5 1.0.3, z3 4.8.12"}],
 "checks":checks,
 "notes":"See DESIGN.md. fix: commits in /repo repair genuine defects found by failed obligations (recorded in known_findings.json).",
 "not_applicable":[{"property_id":k,"reason":v} for k,v in sorted(na.items())]}
json.dump(m,open('/verif/MANIFEST.json','w'),indent=1)
print("claimed",sorted(claimed),"hooks",hook_commits)
