#!/usr/bin/env python3
# usage: props_of_diff.py <diff>  -- prints the properties whose verified functions the diff touches (from the hunk headers
# and the contract files' `func` / `props` lines); falls back to every property of the file's package when a hunk names none.
import re,sys,glob
d=open(sys.argv[1]).read()
funcs=set()
for m in re.finditer(r'^@@[^@]*@@\s*func\s*(?:\([^)]*\)\s*)?(\w+)',d,re.M): funcs.add(m.group(1))
for m in re.finditer(r'^[-+ ]func\s*(?:\([^)]*\)\s*)?(\w+)',d,re.M): funcs.add(m.group(1))
props=set()
for f in glob.glob('/repo/**/zz_contracts_verif.go',recursive=True):
    cur=None
    for l in open(f):
        m=re.match(r'//@ func\s+(?:\([^)]*\)\.)?([\w$]+)',l)
        if m: cur=m.group(1).split('$')[0]; continue
        m=re.match(r'//@\s+props\s+(.*)',l)
        if m and cur in funcs: props.update(m.group(1).split())
        if re.match(r'//@ (spec|ghost|lemma|axiom|site)',l): cur=None
print(' '.join(sorted(props)))
