#!/bin/bash
# usage: confirm_seed.sh <seed-dir> <label>   (seed-dir holds patch.diff, a demo *_test.go, meta.json)
# Confirms a seeded change in a scratch worktree of /repo (outside /repo and /verif): applies, builds, runs the pinned
# suite, runs the demonstration with the change (must fail) and without it (must pass). Prints one JSON line.
SRC=$1; L=$2
export GOFLAGS=-mod=mod GOPROXY=off GOSUMDB=off GOTOOLCHAIN=local
W=/tmp/sw/$L; rm -rf $W; mkdir -p /tmp/sw /tmp/seedres
git -C /repo worktree add -q --detach $W HEAD || exit 2
trap 'git -C /repo worktree remove --force $W >/dev/null 2>&1; rm -rf $W' EXIT
cd $W
applied=ok
git apply $SRC/patch.diff 2>/dev/null || git apply --3way $SRC/patch.diff 2>/dev/null || patch -p1 -s --no-backup-if-mismatch < $SRC/patch.diff >/dev/null 2>&1 || applied=conflict
build=skip; suite=skip; demo_with=skip; demo_without=skip
T=$(ls $SRC/*_test.go | head -1)
pkgdir=$(python3 - "$SRC" <<'PY'
import json,sys,re,glob
import os
m=json.load(open(sys.argv[1]+('/agent_meta.json' if os.path.exists(sys.argv[1]+'/agent_meta.json') else '/meta.json')))
c=m.get('demo_cmd','')
d=re.findall(r'\./([A-Za-z0-9_/]+?)/?(?:\s|$)',c)
print(d[-1] if d else '')
PY
)
run=$(python3 - "$SRC" <<'PY'
import json,sys,re
import os
m=json.load(open(sys.argv[1]+('/agent_meta.json' if os.path.exists(sys.argv[1]+'/agent_meta.json') else '/meta.json')))
c=m.get('demo_cmd','')
r=re.search(r"-run\s+'?([A-Za-z0-9_|^$]+)'?",c)
print(r.group(1) if r else 'TestSeed')
PY
)
if [ $applied = ok ]; then
  if go build ./... >/tmp/seedres/$L.build.log 2>&1; then build=ok; else build=fail; fi
  if [ $build = ok ]; then
    # the pinned suite writes /tmp/pegnet-tmp.db (fixed path): one suite at a time. TestConversions_Convert_Random draws
    # random inputs and fails in roughly 4 of 10 runs on the unchanged tree as well ("integer overflow"): not counted.
    if flock /tmp/seedres/suite.lock go test -vet=off -count=1 -timeout 25m ./... >/tmp/seedres/$L.suite.log 2>&1; then suite=pass
    elif [ -z "$(grep -E '^--- FAIL' /tmp/seedres/$L.suite.log | grep -v 'TestConversions_Convert_Random')" ] && ! grep -q '^panic\|build failed' /tmp/seedres/$L.suite.log; then suite=pass-except-randomised-test
    else suite=fail; fi
    cp $T $pkgdir/
    if go test -vet=off -count=1 -timeout 10m -run "$run" ./$pkgdir/ >/tmp/seedres/$L.with.log 2>&1; then demo_with=pass; else demo_with=fail; fi
    git checkout -q -- . ; git stash -q 2>/dev/null; git checkout -q -- .
    git status --short | grep -v '^??' >/dev/null && git reset -q --hard
    if go test -vet=off -count=1 -timeout 10m -run "$run" ./$pkgdir/ >/tmp/seedres/$L.without.log 2>&1; then demo_without=pass; else demo_without=fail; fi
  fi
fi
echo "{\"seed\":\"$L\",\"applied\":\"$applied\",\"build\":\"$build\",\"suite\":\"$suite\",\"demo_with_change\":\"$demo_with\",\"demo_without_change\":\"$demo_without\",\"pkg\":\"$pkgdir\",\"run\":\"$run\"}" | tee /tmp/seedres/$L.json
