#!/bin/bash
# usage: mut.sh <patch.diff> <govc args...>   — run govc against a scratch copy of /repo with the patch applied
set -e
P=$1; shift
S=$(mktemp -d /tmp/vscratch.XXXXXX)
trap 'rm -rf $S' EXIT
rsync -a --exclude .git /repo/ $S/repo/
(cd $S/repo && patch -p1 -s < $P)
export GOFLAGS=-mod=mod GOPROXY=off GOSUMDB=off GOTOOLCHAIN=local
VERIF_REPO=$S/repo "$@"
