python3 - <<'EOF'
import json,glob,os,re,collections
rows=collections.defaultdict(list)
for l in open('/verif/seeded/matrix_raw.log'):
    a=l.split(None,3)
    if len(a)<3: continue
    sid,pid,res=a[0],a[1],a[2]
    obls=[]
    if len(a)>3:
        for m in re.finditer(r'VIOLATION property=\S+ (\S+?)\.json', a[3]):
            obls.append(m.group(1))
    rows[sid].append((pid,res,obls))
table=[]
for d in sorted(glob.glob('/verif/seeded/C*')):
    if not os.path.isdir(d): continue
    sid=os.path.basename(d)
    am=json.load(open(d+'/agent_meta.json'))
    cf=json.load(open(d+'/confirm.json'))
    demo=[f for f in os.listdir(d) if f.endswith('_test.go')]
    note=None
    if sid=='C09b':
        note="Confirmed against the tree as it was before fix 83f6df2 (demonstration failed with the change). The fix (API handlers compute averages on a private Pegnetd) neutralises this change: on the repaired tree the demonstration passes with the change applied and no check reports it (C18 verifies that the handler writes only its own map). Kept for the record."
        rows[sid]=[('C09','not applicable on the repaired tree (neutralised by fix 83f6df2)',[]),('C18','passes (correctly: the change is harmless now)',[])]
    meta={"id":sid,"property":sid[:3],"round":{"c":2,"d":3,"e":4,"f":5,"g":6,"h":6,"i":7,"j":7,"k":8,"l":8,"m":8}.get(sid[-1],1),
      "summary":am.get('summary'),"needs_to_manifest":am.get('needs_to_manifest'),"files_changed":am.get('files_changed'),
      "patch":"patch.diff"+(" (rebased onto the fix commits; the sub-agent's original is patch.original.diff)" if os.path.exists(d+'/patch.original.diff') else ""),
      "demonstration":demo,
      "what_i_ran":{"scratch_worktree":"git -C /repo worktree add --detach /tmp/sw/<id> HEAD; patch applied; removed afterwards",
         "applies":cf['applied'],"builds":cf['build'],"pinned_suite_with_change":cf['suite'],
         "demonstration_with_change":cf['demo_with_change'],"demonstration_without_change":cf['demo_without_change'],
         "note":"pinned suite run serially (it writes /tmp/pegnet-tmp.db); TestConversions_Convert_Random is randomised and fails in ~4 of 10 runs on the unchanged tree, not counted"},
      "checks_run_against_it":[{"check":p,"result":r,"first_failed_obligations":o} for p,r,o in rows.get(sid,[])]}
    if sid=='C02g':
        note="NOT confirmed on the current HEAD: the demonstration does not pass on the unchanged HEAD either (after fix 7e3aeec the re-applied developer-reward block fails and is retried for ever instead of being committed short; the demo's harness then ends the process through log.Fatal at shutdown), so the change cannot be shown harmful with it there. It is the same change as seed C02a (INSERT OR IGNORE into pn_sync_version) and is reported by the same stand-in. Kept for the record, not counted."
        meta["note"]=note
    if sid=='C18f':
        note="Confirmed to apply, build and pass the suite on the current HEAD, but the demonstration PASSES with the change there: the fix 83f6df2 (API handlers compute averages on a private Pegnetd) neutralises it -- a cancelled request can no longer poison the averages cache the sync routine uses. On the pinned tree (before the fix) the sub-agent's demonstration failed with the change. Kept for the record."
        rows[sid]=[('C18','passes (correctly: the change is harmless on the repaired tree, neutralised by fix 83f6df2)',[])]
        meta["checks_run_against_it"]=[{"check":p_,"result":r_,"first_failed_obligations":o_} for p_,r_,o_ in rows[sid]]
        meta["note"]=note
    if note: meta["note"]=note
    json.dump(meta,open(d+'/meta.json','w'),indent=1)
    res='; '.join("%s: %s%s"%(p,r,(' ('+', '.join(x.replace('__','').strip('_')[:60] for x in o[:2])+')') if o else '') for p,r,o in rows.get(sid,[]))
    what=(am.get('summary') or '').split('. ')[0][:140]
    table.append("| %s | %s | %s |"%(sid, what.replace('|','/'), res.replace('|','/')))
open('/tmp/matrix.md','w').write("| seed | change (first sentence of the author's summary) | checks run → result (first failing obligations) |\n|---|---|---|\n"+'\n'.join(table)+'\n')
s=open('/verif/DESIGN.md').read()
i=s.index('### S.7 Seeded changes')
j=s.index('\n## 0. Summary table')
# find the rule line before "## 0."
k=s.index('### S.8 Tools',i,j) if '### S.8 Tools' in s[i:j] else s.rindex('---------------------------------------------------------------------------------------',i,j)
new='''### S.7 Seeded changes — which check catches which

136 changes: two per property written by sub-agents in round 1 (suffix a, b; scratch worktrees of the pinned commit, only the
property text given), twelve more in round 2 (suffix c, prompted to aim at helpers, glue code, SQL, error paths, activation
boundaries) eight in round 3 (suffix d, prompted to write the change as a plausible refactoring, optimisation or
"fix" a reviewer would accept) and twelve in round 4 (suffix e, for the properties round 3 left out, prompted for small
corner-case edits: an operator, a moved or dropped statement, an SQL predicate, a swallowed error) and twenty in round 5
(suffix f, one per property, each agent steered to one kind of detail: arithmetic/integer conversion, an SQL statement,
error handling, an era boundary, or the order and scope of operations, away from the most obvious line) and fourteen in
round 6 (suffix g, h: each agent confined to one file or function of the code the proofs only ASSUME — the SQL leaves of
node/pegnet, `GetPegNetRateAverages`, `recordPegnetRequests`, `multiFetch`, the JSON decoders) and twenty in round 7
(suffix i, j: each agent confined to one VERIFIED function or group, asked for a clean-up that is almost behaviour-preserving)
and ten in round 8 (suffix k, l, m: the verified functions with the thinnest contracts).  Each was confirmed by me in a scratch worktree of the current HEAD (applies, builds, pinned suite passes,
demonstration fails with the change and passes without); thirteen patches (C02a, C10i, C13b, C13f, C14i, C15i, C18a, C18b, C18d, C18i, C19k, C20b, C20d) had to be rebased onto
the fix commits (the original is kept beside them).  `seeded/<id>/meta.json` records what was run; `seeded/matrix_raw.log` is
the raw output of `tools/seed_matrix.sh` (equivalent to `git -C /repo apply <patch>; ./check <P>; git -C /repo checkout -- .`,
on a scratch copy so that several can run at once and the committed evidence is not overwritten).

'''+open('/tmp/matrix.md').read()+'''
All 133 live, confirmed changes are caught by the check of the property they break (C09b and C18f are no longer defects on the repaired tree: fix 83f6df2 neutralises them; C02g, a repeat of C02a, could not be confirmed on HEAD and is not counted, it is reported all the same).
How: **bounded stand-ins only** — C02a, C06b, C11b, C11c, C14a, C16b, C17a (SQL text or an assumed function), C09a, C09d, C09f
(averages), C04e (`recordPegnetRequests`), C11e (previous winners query), C14e (snapshot rotation under faults), C01f, C06f, C10f, C11f, C16f, C17f (leaves, see below), C10a, C10c, C10e (`multiFetch`), C20a (JSON decoders); **proof obligations** (plus, for the arithmetic cores, a
concrete failing input from the bounded counterexample search) — all others.  Round 2 first missed C03c (caught only by
C13's check: the reject-code mapping is now tagged C03 as well), C06c/C16c (PEG requests paid twice: the ghost set
`LpegPaid` was added), C12c (capitalisation computed under the wrong names: the sum and the renaming were pinned), C14c
(`continue` turned into `break`: `loop N no-break`), C10c and, from round 1, C10a and C20a (bounded stand-ins for `multiFetch`
and the JSON decoders were added).  Round 3 first missed C09d (the window rebuilt after a restart drops zero-priced samples the
incremental path keeps: the bounded stand-in for `GetPegNetRateAverages` had no zero-priced rows in its histories; a third
asset priced 0 at one or two heights was added to the gap-free family, which still passes on the unchanged tree).  C01d
rewrites `Payouts` into one loop: it is reported through the loop contracts of the two-loop original that no longer fit
(initialisation of the invariants fails) — after re-stating the invariants for the new shape the tie-break clause
`dust_recipient_is_highest_request_lowest_txid` is the one that cannot be proved.  C18d puts the write to the shared averages map into a new helper with a loop (not executed in place): the handlers fail
`loop 1 preserves old` and their frame because the helper, having no contract, may write anything; written directly into
the handler the same loop fails the handler's frame for the map that is not its own (the behaviour-preserving twin,
`seeded_harmless/h22`, passes).  Round 4 first missed C16e (`<` turned into `<=` at the V4 fork: both the per-height and the pooled PEG settlement ran
in the fork block; the contract of `ApplyTransactionBatchesInHolding` said nothing about which settlement runs when — site
contracts for the two `recordPegnetRequests` calls, a call-count postcondition and the precondition that the block's bank row
exists were added, the latter discharged in `SyncBlock` from `SyncBank`) and C14e (the last statement of the snapshot
rotation fails and the error is shadowed: the stand-in for `SnapshotCurrent` only exercised the healthy path; a
statement-fault stand-in — fail statement k of the leaf, for every k, the leaf must report it — was added for the snapshot
rotation and for fifteen other writing leaves).  C06e is reported as a refusal (the contract names the loop counter `i`,
the change renames it and leaves another `i` in scope); with the name kept it fails `loop 2 invariant batches`.
Round 5 first missed four of nineteen live changes, all in code the proofs only ASSUME: C01f (`InsertStakingCoinbase`
numbers the payout records by a running counter over the payout map, i.e. by map iteration order — a stand-in now pins
"the record of payout <rank> is stored under tx_index <rank>"), C06f (`SelectMostRecentRatesBeforeHeight` looks the
last rated height up in `pn_grade`: the rates stand-in was not run for C06 and had no graded rows — it now runs for
every property that verifies the holding path and inserts graded rows at unrelated heights), C10f (a failed rates read
inside `GetPegNetRateAverages` is logged instead of fatal before PIP10 and leaves a hole in the window — new stand-in:
every rates query of the call sequence fails once and must be fatal or harmless) and C17f (scan destinations hoisted out
of the row loop of the history reader, a conversion row inherits the outputs of the transfer before it — the paging
stand-in now compares every returned action field by field with what was recorded).  C13f is the buggy twin of the
harmless edit h23 (the `ValidatePegTx` verdict is overwritten): it fails the precondition
`no_conversion_into_PEG_from_2_0` of `applyTransactionBatch`, h23 passes.
Round 6 (assumed code only): all caught at the first run, twelve of fourteen by bounded stand-ins — which is what round
5 had been used to build.  One catch was for the wrong reason and was corrected: C04g (a shadowed error in `AddToBalance`
under a statement fault) was reported only because the same patch adds `defer stmt.Close()` to the verified
`SubFromBalance`, which the engine refused; defers after an early return are now handled (`seeded_harmless/h35`) and the
statement-fault stand-in runs under every property that assumes the balance leaves, which is what reports C04g now.
Round 7 (verified functions, "almost right" clean-ups): nineteen of twenty caught at the first run by proof obligations of
the changed function.  The miss, C14i (the two "no rates for this snapshot block" fallbacks of `SyncBlock` merged so that an
empty rate map no longer triggers the 2.0.2 fallback), exposed both a gap in the contract — nothing said WHICH rates the
snapshot is valued at, nor that a snapshot height takes the snapshot at all — and, while writing those clauses, a genuine
defect of the unchanged code next to it (F4g: the error of the fallback query was ignored; fixed).  The new site clause
`snapshot_valued_at_the_block_rates_or_the_last_recorded_ones` reports C14i.
Round 8: nine of ten caught at the first run; the miss, C18k (`get-pegnet-rates` takes its default height from the in-memory
counter, which the sync routine advances before the commit, instead of the committed `synced` row: the answer reflects a
partially applied block), belongs to the second sentence of C18, which the frame conditions do not cover — the handler now
has the postcondition `default_height_is_the_committed_one` (no call of `GetCurrentSync`).
A change that moves code into a new helper without a contract is reported through the
havoc of the uncontracted call (C11a, C15c, C16c, C18a, C18b): that is "needs contract", reported as a violation because
obligations of the baseline stop discharging.

'''
s=s[:i]+new+s[k:]
open('/verif/DESIGN.md','w').write(s)
print(len(table))
EOF
