#!/bin/bash
# usage: replay.sh <pkgdir-relative-to-repo> <test-file> <TestName> [repo]
# Runs one in-package test against the real code by overlay (nothing is written into the repo).
PKG=$1; TEST=$2; NAME=$3; REPO=${4:-${VERIF_REPO:-/repo}}
export GOFLAGS=-mod=mod GOPROXY=off GOSUMDB=off GOTOOLCHAIN=local
W=$(mktemp -d /tmp/vreplay.XXXXXX); trap 'rm -rf $W' EXIT
COMMON=$(dirname $TEST)/zz_conf_common_test.go
EXTRA=""
if [ -f "$COMMON" ] && [ "$COMMON" != "$TEST" ]; then EXTRA=",\"$REPO/$PKG/zz_verif_conf_common_test.go\":\"$COMMON\""; fi
cat > $W/ov.json <<J
{"Replace":{"$REPO/$PKG/zz_verif_harness_test.go":"/verif/harness/zz_verif_harness_test.go","$REPO/$PKG/zz_verif_case_test.go":"$TEST"$EXTRA}}
J
cd $REPO && go test -overlay $W/ov.json -vet=off -count=1 -timeout 900s -run "^$NAME\$" -v ./$PKG/ 2>&1
