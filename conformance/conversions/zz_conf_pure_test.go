package conversions_test

// Counterexample SEARCH for the pure arithmetic functions that are PROVED by the deductive part (Convert, PayoutBig, Payout,
// Refund).  When a change breaks one of their proof obligations the solvers usually answer "unknown" (non-linear integer
// arithmetic) and give no model; this bounded search over a grid of boundary values then supplies a concrete failing input
// for the replay file.  It evaluates the contract clauses of node/conversions/zz_contracts_verif.go with math/big.
// It is not what the claim rests on (the proofs are), and is labelled bounded like every other stand-in.

import (
	"math"
	"math/big"
	"testing"

	"github.com/pegnet/pegnetd/config"
	"github.com/pegnet/pegnetd/node/conversions"
)

var confGrid = []uint64{0, 1, 2, 3, 7, 1000, 99999999, 100000000, 100000001, 1 << 31, 1<<32 - 1, 1 << 32, 1<<32 + 1, 3037000499, 3037000500,
	1 << 62, 1<<63 - 1, 1 << 63, 1<<63 + 1, 1<<64 - 2, 1<<64 - 1, 6074001000, 4294967296 * 3, 12345678901234567}

func bi(u uint64) *big.Int { return new(big.Int).SetUint64(u) }

func TestConf_ConvertAgainstContract(t *testing.T) {
	evals := 0
	rates := []uint64{0, 1, 2, 9999, 100000000, 1 << 40, 1<<64 - 1}
	amounts := []int64{-1, 0, 1, 2, 99999999, 100000000, 1 << 40, math.MaxInt64 - 1, math.MaxInt64}
	for _, h := range []uint32{config.PIP10AverageActivation - 1, config.PIP10AverageActivation} {
		for _, amt := range amounts {
			for _, fr := range rates {
				for _, fa := range rates {
					for _, tr := range rates {
						for _, ta := range rates {
							evals++
							src, dst := fr, tr
							if h >= config.PIP10AverageActivation {
								if fr > fa {
									src = fa
								}
								if tr < ta {
									dst = ta
								}
							}
							ok := amt >= 0 && fr != 0 && tr != 0 && (h < config.PIP10AverageActivation || (fa != 0 && ta != 0))
							var spec *big.Int
							if ok {
								spec = new(big.Int).Mul(big.NewInt(amt), bi(src))
								spec.Quo(spec, bi(dst))
								ok = spec.IsInt64()
							}
							got, err := conversions.Convert(h, amt, fr, fa, tr, ta)
							if (err == nil) != ok {
								t.Fatalf("CONF leaf=Convert clause=iff: Convert(%d, %d, %d, %d, %d, %d) err=%v, contract says accepted=%v", h, amt, fr, fa, tr, ta, err, ok)
							}
							if err == nil && big.NewInt(got).Cmp(spec) != 0 {
								t.Fatalf("CONF leaf=Convert clause=exact: Convert(%d, %d, %d, %d, %d, %d) = %d, contract says %s", h, amt, fr, fa, tr, ta, got, spec)
							}
							if err != nil && got != 0 {
								t.Fatalf("CONF leaf=Convert clause=zero_on_error: Convert(%d, %d, %d, %d, %d, %d) = %d with %v", h, amt, fr, fa, tr, ta, got, err)
							}
							if err == nil {
								l := new(big.Int).Mul(big.NewInt(got), bi(tr))
								r := new(big.Int).Mul(big.NewInt(amt), bi(fr))
								if l.Cmp(r) > 0 {
									t.Fatalf("CONF leaf=Convert clause=value: Convert(%d, %d, %d, %d, %d, %d) = %d is worth more than the input", h, amt, fr, fa, tr, ta, got)
								}
							}
						}
					}
				}
			}
		}
	}
	t.Logf("CONF-STATS evaluations=%d (grid of boundary values)", evals)
}

func TestConf_PayoutAgainstContract(t *testing.T) {
	evals := 0
	for _, req := range confGrid {
		for _, bank := range confGrid {
			for _, tot := range confGrid {
				for _, extra := range []uint64{0, 1 << 63} { // totals above 2^64 as well
					total := new(big.Int).Add(bi(tot), new(big.Int).Mul(bi(extra), big.NewInt(4)))
					evals++
					got := conversions.PayoutBig(req, bank, total)
					if req == 0 || bank == 0 || total.Sign() == 0 {
						if got != 0 {
							t.Fatalf("CONF leaf=PayoutBig clause=zero: PayoutBig(%d, %d, %s) = %d", req, bank, total, got)
						}
						continue
					}
					if bi(req).Cmp(total) > 0 {
						continue // outside the clause (a request above the total requested)
					}
					spec := new(big.Int).Mul(bi(req), bi(bank))
					spec.Quo(spec, total)
					if bi(got).Cmp(spec) != 0 || got > bank {
						t.Fatalf("CONF leaf=PayoutBig clause=share: PayoutBig(%d, %d, %s) = %d, contract says %s (<= bank)", req, bank, total, got, spec)
					}
					if extra == 0 {
						if g2 := conversions.Payout(req, bank, tot); g2 != got {
							t.Fatalf("CONF leaf=Payout clause=share: Payout(%d, %d, %d) = %d, PayoutBig gives %d", req, bank, tot, g2, got)
						}
					}
				}
			}
		}
	}
	t.Logf("CONF-STATS evaluations=%d (grid of boundary values)", evals)
}

func TestConf_RefundAgainstContract(t *testing.T) {
	evals := 0
	h := config.PIP10AverageActivation
	rates := []uint64{1, 2, 9999, 100000000, 1 << 40}
	amounts := []int64{0, 1, 3, 99999999, 100000000, 1 << 40, 1 << 55}
	conv0 := func(amt *big.Int, fr, tr uint64) *big.Int {
		x := new(big.Int).Mul(amt, bi(fr))
		return x.Quo(x, bi(tr))
	}
	for _, in := range amounts {
		for _, ir := range rates {
			for _, pr := range rates {
				full := conv0(big.NewInt(in), ir, pr)
				if !full.IsInt64() {
					continue // requires convOK0
				}
				for _, frac := range []int64{0, 1, 2, 3} {
					y := new(big.Int).Mul(full, big.NewInt(frac))
					y.Quo(y, big.NewInt(3))
					if frac == 1 && full.Sign() > 0 {
						y = big.NewInt(1)
					}
					if y.Cmp(full) > 0 {
						continue
					}
					back := conv0(new(big.Int).Sub(full, y), pr, ir)
					if !back.IsInt64() {
						continue
					}
					evals++
					got := conversions.Refund(h, in, y.Int64(), ir, pr)
					if big.NewInt(got).Cmp(back) != 0 {
						t.Fatalf("CONF leaf=Refund clause=exact: Refund(%d, %d, %s, %d, %d) = %d, contract says %s", h, in, y, ir, pr, got, back)
					}
					l := new(big.Int).Add(new(big.Int).Mul(y, bi(pr)), new(big.Int).Mul(big.NewInt(got), bi(ir)))
					if l.Cmp(new(big.Int).Mul(big.NewInt(in), bi(ir))) > 0 || got < 0 {
						t.Fatalf("CONF leaf=Refund clause=value: Refund(%d, %d, %s, %d, %d) = %d: yield plus refund are worth more than the input", h, in, y, ir, pr, got)
					}
				}
			}
		}
	}
	t.Logf("CONF-STATS evaluations=%d (grid of boundary values)", evals)
}
