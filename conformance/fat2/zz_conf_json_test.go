package fat2_test

// BOUNDED stand-in for the assumed contracts of the FAT-2 JSON decoders (encoding/json and jsonlen are outside the verified
// subset), for the clause of C20 "a batch is accepted only in canonical form ... and re-encoding any accepted batch yields an
// entry that decodes to the same transactions":
//
//   NewTransactionBatch(entry) == nil error  ==>  the content is canonical:  no duplicate key, no unknown key, known tickers,
//                                                 exactly one of the keys "transfers" / "conversion" in every transaction
//   canonical (and otherwise valid) content  ==>  accepted
//   accepted                                  ==>  decode(encode(batch)) has the same transactions
//
// The inputs are generated from a grammar of transaction objects (keys present / absent / null / empty / duplicated /
// unknown, key order, ticker spellings), each embedded in a correctly signed entry so that the signature check does not
// mask the decoder.  Bounds: 1 and 2 transactions per batch; all combinations listed in confTxShapes (a few hundred).

import (
	"encoding/json"
	"fmt"
	"os"
	"reflect"
	"testing"
	"time"

	"github.com/Factom-Asset-Tokens/factom"
	"github.com/Factom-Asset-Tokens/factom/fat103"
	"github.com/pegnet/pegnetd/fat/fat2"
)

type confShape struct {
	json      string
	canonical bool
	what      string
}

func confTxShapes(in, out factom.FAAddress) []confShape {
	input := fmt.Sprintf(`{"address":"%s","amount":100,"type":"pUSD"}`, in)
	xfer := fmt.Sprintf(`[{"address":"%s","amount":100}]`, out)
	xfer2 := fmt.Sprintf(`[{"address":"%s","amount":60},{"address":"%s","amount":40}]`, out, in)
	var s []confShape
	add := func(j string, c bool, w string) { s = append(s, confShape{j, c, w}) }
	// canonical forms
	add(fmt.Sprintf(`{"input":%s,"transfers":%s}`, input, xfer), true, "transfer")
	add(fmt.Sprintf(`{"input":%s,"transfers":%s}`, input, xfer2), true, "two transfers")
	add(fmt.Sprintf(`{"input":%s,"conversion":"pEUR"}`, input), true, "conversion")
	add(fmt.Sprintf(`{"input":%s,"transfers":%s,"metadata":{"a":1}}`, input, xfer), true, "transfer with metadata")
	add(fmt.Sprintf(`{"input":%s,"conversion":"pEUR","metadata":"x"}`, input), true, "conversion with metadata")
	// both keys
	for _, tr := range []string{"[]", "null", xfer} {
		add(fmt.Sprintf(`{"input":%s,"transfers":%s,"conversion":"pEUR"}`, input, tr), false, "transfers "+tr[:2]+" together with conversion")
		add(fmt.Sprintf(`{"input":%s,"conversion":"pEUR","transfers":%s}`, input, tr), false, "conversion together with transfers "+tr[:2])
	}
	// neither key / empty / null
	add(fmt.Sprintf(`{"input":%s}`, input), false, "neither transfers nor conversion")
	add(fmt.Sprintf(`{"input":%s,"transfers":[]}`, input), false, "empty transfers")
	add(fmt.Sprintf(`{"input":%s,"transfers":null}`, input), false, "null transfers")
	add(fmt.Sprintf(`{"input":%s,"conversion":""}`, input), false, "empty conversion ticker")
	add(fmt.Sprintf(`{"input":%s,"conversion":null}`, input), false, "null conversion")
	// duplicate keys
	add(fmt.Sprintf(`{"input":%s,"input":%s,"transfers":%s}`, input, input, xfer), false, "duplicate input")
	add(fmt.Sprintf(`{"input":%s,"transfers":%s,"transfers":%s}`, input, xfer, xfer), false, "duplicate transfers")
	add(fmt.Sprintf(`{"input":%s,"conversion":"pEUR","conversion":"pEUR"}`, input), false, "duplicate conversion")
	add(fmt.Sprintf(`{"input":%s,"transfers":%s,"metadata":1,"metadata":1}`, input, xfer), false, "duplicate metadata")
	// unknown keys
	add(fmt.Sprintf(`{"input":%s,"transfers":%s,"memo":"x"}`, input, xfer), false, "unknown key")
	add(fmt.Sprintf(`{"input":%s,"conversion":"pEUR","Conversion":"pEUR"}`, input), false, "case variant of a key")
	// tickers
	add(fmt.Sprintf(`{"input":%s,"conversion":"pXYZ"}`, input), false, "unknown conversion ticker")
	add(fmt.Sprintf(`{"input":%s,"conversion":"pUSD"}`, input), false, "conversion into the input asset")
	add(fmt.Sprintf(`{"input":{"address":"%s","amount":100,"type":"pXYZ"},"transfers":%s}`, in, xfer), false, "unknown input ticker")
	add(fmt.Sprintf(`{"input":{"address":"%s","amount":100,"type":"pUSD","type":"pUSD"},"transfers":%s}`, in, xfer), false, "duplicate key in input")
	add(fmt.Sprintf(`{"input":{"address":"%s","amount":100,"type":"pUSD","x":1},"transfers":%s}`, in, xfer), false, "unknown key in input")
	// amounts
	add(fmt.Sprintf(`{"input":{"address":"%s","amount":9223372036854775808,"type":"pUSD"},"conversion":"pEUR"}`, in), false, "amount above int64")
	add(fmt.Sprintf(`{"input":{"address":"%s","amount":100,"type":"pUSD"},"transfers":[{"address":"%s","amount":99}]}`, in, out), false, "transfers do not add up to the input")
	add(fmt.Sprintf(`{"input":{"address":"%s","amount":-1,"type":"pUSD"},"conversion":"pEUR"}`, in), false, "negative amount")
	add(fmt.Sprintf(`{"input":{"address":"%s","amount":1e2,"type":"pUSD"},"conversion":"pEUR"}`, in), false, "amount in exponent notation")
	add(fmt.Sprintf(`{"input":%s,"transfers":[{"address":"%s","amount":100,"amount":100}]}`, input, out), false, "duplicate key in a transfer")
	return s
}

func confSignedEntry(t *testing.T, key factom.FsAddress, content string) factom.Entry {
	chain := factom.NewBytes32("cffce0f409ebba4ed236d49d89c70e4bd1f1367d86402a3363366683265a242d")
	e := factom.Entry{ChainID: &chain, Content: factom.Bytes(content)}
	e = fat103.Sign(e, key)
	e.Timestamp = time.Now()
	data, err := e.MarshalBinary()
	if err != nil {
		t.Fatal(err)
	}
	h := factom.ComputeEntryHash(data)
	e.Hash = &h
	return e
}

func TestConf_BatchJSON(t *testing.T) {
	key, err := factom.GenerateFsAddress()
	if err != nil {
		t.Fatal(err)
	}
	other, _ := factom.GenerateFsAddress()
	shapes := confTxShapes(key.FAAddress(), other.FAAddress())
	evals := 0
	check := func(content string, canonical bool, what string) {
		evals++
		e := confSignedEntry(t, key, content)
		batch, err := fat2.NewTransactionBatch(e, 300000)
		if err == nil && !canonical {
			t.Fatalf("CONF leaf=NewTransactionBatch/UnmarshalJSON clause=accepted_only_in_canonical_form: accepted a batch with %s: %s", what, content)
		}
		if err != nil && canonical {
			t.Fatalf("CONF leaf=NewTransactionBatch/UnmarshalJSON clause=canonical_content_is_accepted (%s): %v: %s", what, err, content)
		}
		if err != nil {
			return
		}
		// round trip
		re, err := json.Marshal(batch)
		if err != nil {
			t.Fatalf("CONF leaf=TransactionBatch.MarshalJSON (%s): %v", what, err)
		}
		e2 := confSignedEntry(t, key, string(re))
		b2, err := fat2.NewTransactionBatch(e2, 300000)
		if err != nil {
			t.Fatalf("CONF leaf=MarshalJSON/UnmarshalJSON clause=re_encoding_of_an_accepted_batch_is_accepted (%s): %v: %s", what, err, re)
		}
		if !reflect.DeepEqual(stripMeta(batch.Transactions), stripMeta(b2.Transactions)) {
			t.Fatalf("CONF leaf=MarshalJSON/UnmarshalJSON clause=re_encoding_decodes_to_the_same_transactions (%s): %s", what, re)
		}
	}
	for _, a := range shapes {
		check(fmt.Sprintf(`{"version":1,"transactions":[%s]}`, a.json), a.canonical, a.what)
		// the same shape as the second transaction of a batch whose first transaction is a plain conversion
		first := shapes[2].json
		check(fmt.Sprintf(`{"version":1,"transactions":[%s,%s]}`, first, a.json), a.canonical, "second transaction: "+a.what)
	}
	// batch level
	tx := shapes[0].json
	check(fmt.Sprintf(`{"version":1,"transactions":[%s],"version":1}`, tx), false, "duplicate version")
	check(fmt.Sprintf(`{"version":1,"transactions":[%s],"transactions":[%s]}`, tx, tx), false, "duplicate transactions")
	check(fmt.Sprintf(`{"version":1,"transactions":[%s],"extra":true}`, tx), false, "unknown batch key")
	check(fmt.Sprintf(`{"version":2,"transactions":[%s]}`, tx), false, "unknown version")
	check(`{"version":1,"transactions":[]}`, false, "no transactions")
	// (a batch-level "metadata" key is declared by the type but rejected by the length accounting: stricter than the property
	// asks, so it is not part of the oracle)
	if os.Getenv("VERIF_TIER") == "thorough" {
		for _, a := range shapes {
			for _, b := range shapes {
				check(fmt.Sprintf(`{"version":1,"transactions":[%s,%s]}`, a.json, b.json), a.canonical && b.canonical, a.what+" + "+b.what)
			}
		}
	}
	t.Logf("CONF-STATS evaluations=%d (batch contents from the shape grammar)", evals)
}

func stripMeta(txs []fat2.Transaction) []fat2.Transaction {
	out := make([]fat2.Transaction, len(txs))
	for i, x := range txs {
		x.Metadata = nil
		out[i] = x
	}
	return out
}
