package node

// BOUNDED scenario check of the clause of C11 "staking records not signed by the key of one of the top PEG holders pay
// nothing".  GradeS is verified as glue (right grader version, no panics); which records the grader accepts is the trusted
// pegnet module, and the link between the staker id in ExtIDs[1] (looked up among the top PEG holders) and the key that signed
// the record (ExtIDs[2]) is in neither.  Scenario: one address holds all PEG and signs nothing; 25 records signed by 25 fresh
// keys that hold nothing, each naming the holder as staker and an address of the submitter as payout address.

import (
	"context"
	"crypto/ed25519"
	"crypto/rand"
	"testing"
	"time"

	"github.com/Factom-Asset-Tokens/factom"
	"github.com/pegnet/pegnet/modules/opr"
	"github.com/pegnet/pegnetd/config"
	"github.com/pegnet/pegnetd/fat/fat2"
	log "github.com/sirupsen/logrus"
)

func TestConf_StakingRecordsNeedTheHoldersKey(t *testing.T) {
	log.SetLevel(log.ErrorLevel)
	d, done := vfNewNode(t)
	defer done()
	h := config.V202EnhanceActivation + 10
	holderKey, _ := factom.GenerateFsAddress()
	holder := holderKey.FAAddress()
	// 25 payout addresses of the submitter (the grader keeps one record per payout address)
	var thieves []factom.FAAddress
	for i := 0; i < 25; i++ {
		k, _ := factom.GenerateFsAddress()
		thieves = append(thieves, k.FAAddress())
	}
	tx := confBegin(t, d)
	if _, err := d.Pegnet.AddToBalance(tx, &holder, fat2.PTickerPEG, 5e15); err != nil {
		t.Fatal(err)
	}
	if err := tx.Commit(); err != nil {
		t.Fatal(err)
	}
	chain := config.SPRChain
	var entries []factom.Entry
	for i := 0; i < 25; i++ {
		pub, priv, err := ed25519.GenerateKey(rand.Reader)
		if err != nil {
			t.Fatal(err)
		}
		c := opr.V2Content{Address: thieves[i].String(), ID: "x", Height: int32(h)}
		for range opr.V5Assets {
			c.Assets = append(c.Assets, 100000000+uint64(i))
		}
		content, err := c.Marshal()
		if err != nil {
			t.Fatal(err)
		}
		sig := ed25519.Sign(priv, content)
		e := factom.Entry{ChainID: &chain, ExtIDs: []factom.Bytes{{7}, holder[:], append(append([]byte{}, pub...), sig...)}, Content: content, Timestamp: time.Now()}
		data, _ := e.MarshalBinary()
		hh := factom.ComputeEntryHash(data)
		e.Hash = &hh
		entries = append(entries, e)
	}
	var keymr factom.Bytes32
	eb := &factom.EBlock{ChainID: &chain, KeyMR: &keymr, Height: h, Entries: entries}
	graded, err := d.GradeS(context.Background(), eb)
	if err != nil {
		t.Fatalf("GradeS: %v", err)
	}
	winners := 0
	if graded != nil {
		winners = len(graded.Winners())
	}
	paid := uint64(0)
	if winners > 0 {
		tx = confBegin(t, d)
		if err := d.ApplyGradedSPRBlock(tx, graded, time.Now()); err != nil {
			t.Fatalf("ApplyGradedSPRBlock: %v", err)
		}
		for i := range thieves {
			v, _ := d.Pegnet.SelectPendingBalance(tx, &thieves[i], fat2.PTickerPEG)
			paid += v
		}
		tx.Rollback()
	}
	if winners > 0 || paid > 0 {
		t.Errorf("CONF leaf=GradeS/ApplyGradedSPRBlock clause=staking_records_not_signed_by_a_top_holders_key_pay_nothing: 25 records signed by 25 keys that hold nothing, each naming the PEG holder %s as staker, produce %d winners; %d PEG (base units) are paid to the 25 addresses the records name; the holder signed nothing", holder, winners, paid)
		t.Errorf("CONF-SIG sha=sprsigner n=1")
	}
	t.Logf("CONF-STATS evaluations=1 (scenario)")
}
