package node

// BOUNDED conformance checks of storage-leaf contracts (functions whose body is SQL text and which the deductive
// verifier therefore only *assumes*).  Each test executes the real leaf on a real SQLite ledger for a bounded, seeded
// family of states and inputs and compares the observable tables with the ghost-ledger clause written in the leaf's
// contract (node/pegnet/zz_contracts_verif.go).  The abstraction functions below read the tables with their own SQL.
// These checks are labelled "bounded" in the evidence and are never counted as proved.
//
// Bounds: confTrials seeded trials per leaf, 3 addresses, all 63 tickers, amounts drawn from {0,1,2,7,1e8,2^40,2^62}.

import (
	"context"
	"database/sql"
	"fmt"
	"math/rand"
	"sort"
	"testing"

	"github.com/Factom-Asset-Tokens/factom"
	"github.com/pegnet/pegnet/modules/opr"
	"github.com/pegnet/pegnetd/fat/fat2"
	"github.com/pegnet/pegnetd/node/pegnet"
)

// ---- AddToBalance / SubFromBalance / SelectPendingBalance(s) : Lbal effects ------------------------------------------

func TestConf_Balances(t *testing.T) {
	r := rand.New(rand.NewSource(1))
	d, done := vfNewNode(t)
	defer done()
	for trial := 0; trial < confTrials; trial++ {
		tx := confBegin(t, d)
		confRandomCredits(t, d, tx, r, 6)
		for step := 0; step < 12; step++ {
			before := confReadBalTable(t, tx, "pn_addresses")
			a := confAddr(r.Intn(3))
			tk := fat2.PTicker(1 + r.Intn(int(fat2.PTickerMax)-1))
			v := confAmounts[r.Intn(len(confAmounts)-1)]
			old := uint64(0)
			if before[a] != nil {
				old = before[a][tk]
			}
			if r.Intn(2) == 0 {
				if _, err := d.Pegnet.AddToBalance(tx, &a, tk, v); err != nil {
					t.Fatalf("CONF leaf=AddToBalance clause=healthy_means_nil: %v", err)
				}
				after := confReadBalTable(t, tx, "pn_addresses")
				want := cloneTable(before)
				if want[a] == nil {
					want[a] = make([]uint64, int(fat2.PTickerMax)+1)
				}
				want[a][tk] = old + v
				if m := confEqualTables(want, after); m != "" {
					t.Fatalf("CONF leaf=AddToBalance clause=Lbal==credit(old(Lbal),adr,ticker,value) trial=%d: %s", trial, m)
				}
			} else {
				_, txErr, err := d.Pegnet.SubFromBalance(tx, &a, tk, v)
				if err != nil {
					t.Fatalf("CONF leaf=SubFromBalance clause=healthy_means_nil: %v", err)
				}
				after := confReadBalTable(t, tx, "pn_addresses")
				want := cloneTable(before)
				if v <= old {
					if txErr != nil {
						t.Fatalf("CONF leaf=SubFromBalance clause=debits_iff_sufficient: %d <= %d refused", v, old)
					}
					if want[a] == nil {
						want[a] = make([]uint64, int(fat2.PTickerMax)+1)
					}
					want[a][tk] = old - v
				} else if txErr != pegnet.InsufficientBalanceErr {
					t.Fatalf("CONF leaf=SubFromBalance clause=debits_iff_sufficient: %d > %d gives %v", v, old, txErr)
				}
				if m := confEqualTables(want, after); m != "" {
					t.Fatalf("CONF leaf=SubFromBalance clause=exact_ledger_effect trial=%d: %s", trial, m)
				}
			}
			got, err := d.Pegnet.SelectPendingBalance(tx, &a, tk)
			after := confReadBalTable(t, tx, "pn_addresses")
			exp := uint64(0)
			if after[a] != nil {
				exp = after[a][tk]
			}
			if err != nil || got != exp {
				t.Fatalf("CONF leaf=SelectPendingBalance clause=result==Lbal[adr][ticker]: %d vs %d (%v)", got, exp, err)
			}
			all, err := d.Pegnet.SelectPendingBalances(tx, &a)
			if err != nil {
				t.Fatalf("CONF leaf=SelectPendingBalances: %v", err)
			}
			for k := fat2.PTickerInvalid + 1; k < fat2.PTickerMax; k++ {
				e := uint64(0)
				if after[a] != nil {
					e = after[a][k]
				}
				if v, ok := all[k]; !ok || v != e {
					t.Fatalf("CONF leaf=SelectPendingBalances clause=all_valid_tickers_present_and_equal ticker=%s: %d,%v vs %d", k, v, ok, e)
				}
			}
		}
		tx.Rollback()
	}
	t.Logf("CONF-STATS evaluations=%d (seeded trials)", confTrials)
}


// ---- SnapshotCurrent / SelectSnapshotBalances (C14) -------------------------------------------------------------------
//   SnapshotCurrent: result == nil ==> LsnapPast == old(LsnapCur) && LsnapInPast == old(LsnapInCur) && LsnapCur == Lbal
//   SelectSnapshotBalances: exactly the addresses in both snapshots, each balance == min(current, past), every ticker

func TestConf_Snapshot(t *testing.T) {
	r := rand.New(rand.NewSource(2))
	d, done := vfNewNode(t)
	defer done()
	for trial := 0; trial < confTrials; trial++ {
		tx := confBegin(t, d)
		for round := 0; round < 4; round++ {
			confRandomCredits(t, d, tx, r, 1+r.Intn(8))
			// some spending between snapshots as well
			for k := 0; k < 3; k++ {
				a := confAddr(r.Intn(3))
				tk := fat2.PTicker(1 + r.Intn(int(fat2.PTickerMax)-1))
				d.Pegnet.SubFromBalance(tx, &a, tk, confAmounts[r.Intn(4)])
			}
			bal := confReadBalTable(t, tx, "pn_addresses")
			curBefore := confReadBalTable(t, tx, "snapshot_current")
			if err := d.Pegnet.SnapshotCurrent(tx); err != nil {
				t.Fatalf("CONF leaf=SnapshotCurrent clause=healthy_means_nil: %v", err)
			}
			past := confReadBalTable(t, tx, "snapshot_past")
			cur := confReadBalTable(t, tx, "snapshot_current")
			if m := confEqualTables(curBefore, past); m != "" {
				t.Fatalf("CONF leaf=SnapshotCurrent clause=LsnapPast==old(LsnapCur) trial=%d round=%d: %s", trial, round, m)
			}
			if m := confEqualTables(bal, cur); m != "" {
				t.Fatalf("CONF leaf=SnapshotCurrent clause=LsnapCur==Lbal trial=%d round=%d: %s", trial, round, m)
			}
			if m := confEqualTables(bal, confReadBalTable(t, tx, "pn_addresses")); m != "" {
				t.Fatalf("CONF leaf=SnapshotCurrent clause=modifies_only_snapshots: %s", m)
			}
			pairs, err := d.Pegnet.SelectSnapshotBalances(tx)
			if err != nil {
				t.Fatalf("CONF leaf=SelectSnapshotBalances: %v", err)
			}
			seen := map[factom.FAAddress]bool{}
			for _, bp := range pairs {
				if bp.Address == nil || len(bp.Balances) != int(fat2.PTickerMax)+1 {
					t.Fatalf("CONF leaf=SelectSnapshotBalances clause=shape")
				}
				a := *bp.Address
				if seen[a] {
					t.Fatalf("CONF leaf=SelectSnapshotBalances clause=one_row_per_address")
				}
				seen[a] = true
				if past[a] == nil || cur[a] == nil {
					t.Fatalf("CONF leaf=SelectSnapshotBalances clause=only_addresses_in_both_snapshots: %x", a[:4])
				}
				for tk := fat2.PTickerInvalid + 1; tk < fat2.PTickerMax; tk++ {
					m := past[a][tk]
					if cur[a][tk] < m {
						m = cur[a][tk]
					}
					if bp.Balances[tk] != m {
						t.Fatalf("CONF leaf=SelectSnapshotBalances clause=balance==min(current,past) trial=%d round=%d ticker=%s: got %d want %d", trial, round, tk, bp.Balances[tk], m)
					}
				}
			}
			for a := range past {
				if cur[a] != nil && !seen[a] {
					t.Fatalf("CONF leaf=SelectSnapshotBalances clause=every_address_in_both_snapshots: %x missing", a[:4])
				}
			}
		}
		tx.Rollback()
	}
	t.Logf("CONF-STATS evaluations=%d (seeded trials)", confTrials)
}

// ---- InsertSynced / markHeightSyncedVersion (C02 C19) -----------------------------------------------------------------
//   envHealthy ==> (result == nil <==> !old(LsyncPresent)[height]); a failure changes nothing

func TestConf_SyncVersion(t *testing.T) {
	r := rand.New(rand.NewSource(3))
	d, done := vfNewNode(t)
	defer done()
	for trial := 0; trial < confTrials; trial++ {
		tx := confBegin(t, d)
		present := map[uint32]bool{}
		for step := 0; step < 10; step++ {
			h := uint32(1 + r.Intn(5))
			err := d.Pegnet.InsertSynced(tx, &pegnet.BlockSync{Synced: h})
			if present[h] && err == nil {
				t.Fatalf("CONF leaf=InsertSynced/markHeightSyncedVersion clause=result==nil<==>!old(LsyncPresent)[height]: height %d recorded twice without error", h)
			}
			if !present[h] && err != nil {
				t.Fatalf("CONF leaf=InsertSynced clause=healthy_and_fresh_height_means_nil: %v", err)
			}
			present[h] = true
			var n int
			if e := tx.QueryRow(`SELECT COUNT(*) FROM pn_sync_version WHERE height = ?`, h).Scan(&n); e != nil || n != 1 {
				t.Fatalf("CONF leaf=markHeightSyncedVersion clause=one_row_per_height: %d rows (%v)", n, e)
			}
			if err == nil {
				bs, e := d.Pegnet.SelectSynced(context.Background(), tx)
				if e != nil || bs.Synced != h {
					t.Fatalf("CONF leaf=InsertSynced clause=LmetaSynced==bs.Synced: %v %v", bs, e)
				}
				var ver int
				if e := tx.QueryRow(`SELECT version FROM pn_sync_version WHERE height = ?`, h).Scan(&ver); e != nil || ver != pegnet.PegnetdSyncVersion {
					t.Fatalf("CONF leaf=InsertSynced clause=LsyncVer[height]==PegnetdSyncVersion: %d (%v)", ver, e)
				}
			}
		}
		tx.Rollback()
	}
	t.Logf("CONF-STATS evaluations=%d (seeded trials)", confTrials)
}

// ---- history / holding / relation (C06 C17) ---------------------------------------------------------------------------


func TestConf_HistoryAndHolding(t *testing.T) {
	r := rand.New(rand.NewSource(4))
	d, done := vfNewNode(t)
	defer done()
	for trial := 0; trial < confTrials; trial++ {
		tx := confBegin(t, d)
		b := confBatch(t, r, 1+r.Intn(3))
		h := uint32(300000 + r.Intn(3))
		// InsertTransactionHistoryTxBatch: result == nil ==> !old(Lhist)[H] && Lhist[H] && Lexec[H] == 0
		if err := d.Pegnet.InsertTransactionHistoryTxBatch(tx, 0, b, h); err != nil {
			t.Fatalf("CONF leaf=InsertTransactionHistoryTxBatch clause=healthy_and_new_means_nil: %v", err)
		}
		var n, exec int
		if e := tx.QueryRow(`SELECT COUNT(*), MAX(executed) FROM pn_history_txbatch WHERE entry_hash = ?`, b.Entry.Hash[:]).Scan(&n, &exec); e != nil || n != 1 || exec != 0 {
			t.Fatalf("CONF leaf=InsertTransactionHistoryTxBatch clause=Lhist[H]&&Lexec[H]==0: rows=%d exec=%d (%v)", n, exec, e)
		}
		// every address of every transaction is indexed under (entry, tx_index, address)
		for i, tr := range b.Transactions {
			addrs := []factom.FAAddress{tr.Input.Address}
			for _, o := range tr.Transfers {
				addrs = append(addrs, o.Address)
			}
			for _, a := range addrs {
				var c int
				tx.QueryRow(`SELECT COUNT(*) FROM pn_history_lookup WHERE entry_hash = ? AND tx_index = ? AND address = ?`, b.Entry.Hash[:], i, a[:]).Scan(&c)
				if c != 1 {
					t.Fatalf("CONF leaf=InsertTransactionHistoryTxBatch clause=every_party_of_every_transaction_is_indexed trial=%d tx=%d addr=%x: %d rows", trial, i, a[:4], c)
				}
			}
			var c int
			tx.QueryRow(`SELECT COUNT(*) FROM pn_history_transaction WHERE entry_hash = ? AND tx_index = ?`, b.Entry.Hash[:], i).Scan(&c)
			if c != 1 {
				t.Fatalf("CONF leaf=InsertTransactionHistoryTxBatch clause=one_action_row_per_transaction: %d", c)
			}
		}
		// a second insert of the same entry (same or later height) must fail: result == nil ==> !old(Lhist)[H]
		for _, h2 := range []uint32{h, h + 1} {
			if err := d.Pegnet.InsertTransactionHistoryTxBatch(tx, 1, b, h2); err == nil {
				t.Fatalf("CONF leaf=InsertTransactionHistoryTxBatch clause=result==nil==>!old(Lhist)[H]: entry recorded twice (height %d then %d)", h, h2)
			}
		}
		tx.Rollback()
		tx = confBegin(t, d)
		// InsertTransactionBatchHolding: result == nil ==> old(Lhold)[H] < 0 (not held before)
		var keymr factom.Bytes32
		if _, err := d.Pegnet.InsertTransactionBatchHolding(tx, b, uint64(h), &keymr); err != nil {
			t.Fatalf("CONF leaf=InsertTransactionBatchHolding clause=healthy_and_new_means_nil: %v", err)
		}
		if _, err := d.Pegnet.InsertTransactionBatchHolding(tx, b, uint64(h+1), &keymr); err == nil {
			t.Fatalf("CONF leaf=InsertTransactionBatchHolding clause=result==nil==>old(Lhold)[H]<0: entry held twice")
		}
		tx.Rollback()
		tx = confBegin(t, d)
		// SetTransactionHistoryExecuted / IsReplayTransaction / InsertTransactionRelation
		if err := d.Pegnet.InsertTransactionHistoryTxBatch(tx, 0, b, h); err != nil {
			t.Fatal(err)
		}
		if rep, err := d.Pegnet.IsReplayTransaction(tx, b.Entry.Hash); err != nil || rep {
			t.Fatalf("CONF leaf=IsReplayTransaction clause=result<==>Lrel[H]: %v %v before any relation row", rep, err)
		}
		code := int64(-1 - r.Intn(5))
		if err := d.Pegnet.SetTransactionHistoryExecuted(tx, b, code); err != nil {
			t.Fatalf("CONF leaf=SetTransactionHistoryExecuted: %v", err)
		}
		tx.QueryRow(`SELECT executed FROM pn_history_txbatch WHERE entry_hash = ?`, b.Entry.Hash[:]).Scan(&exec)
		if int64(exec) != code {
			t.Fatalf("CONF leaf=SetTransactionHistoryExecuted clause=Lexec==upd(old(Lexec),H,executed): %d vs %d", exec, code)
		}
		a0 := b.Transactions[0].Input.Address
		if _, err := d.Pegnet.InsertTransactionRelation(tx, a0, b.Entry.Hash, 0, false, b.Transactions[0].IsConversion()); err != nil {
			t.Fatalf("CONF leaf=InsertTransactionRelation: %v", err)
		}
		if rep, err := d.Pegnet.IsReplayTransaction(tx, b.Entry.Hash); err != nil || !rep {
			t.Fatalf("CONF leaf=IsReplayTransaction clause=result<==>Lrel[H]: %v %v after a relation row", rep, err)
		}
		tx.Rollback()
	}
	t.Logf("CONF-STATS evaluations=%d (seeded trials)", confTrials)
}

// ---- rates (C12): INSERT-only under UNIQUE(height, token) ---------------------------------------------------------------

func TestConf_Rates(t *testing.T) {
	r := rand.New(rand.NewSource(5))
	d, done := vfNewNode(t)
	defer done()
	for trial := 0; trial < confTrials; trial++ {
		tx := confBegin(t, d)
		model := map[uint32]map[fat2.PTicker]uint64{}
		// graded heights are unrelated to rated heights (a block graded without winners has no rates; a block rated from
		// staking records alone is not graded): rows of pn_grade at heights chosen independently of the rated ones
		for g := 0; g < 3; g++ {
			gh := 1 + r.Intn(7)
			tx.Exec(`INSERT OR IGNORE INTO pn_grade (height, keymr, prevkeymr, eb_seq, shorthashes, version, cutoff, count) VALUES (?, ?, ?, ?, ?, ?, ?, ?)`,
				gh, []byte{byte(gh), byte(trial), byte(trial >> 8)}, []byte{0}, gh, []byte("[]"), 5, 50, 0)
		}
		for step := 0; step < 6; step++ {
			h := uint32(1 + r.Intn(6))
			var list []opr.AssetUint
			want := map[fat2.PTicker]uint64{}
			for _, name := range []string{"PEG", "USD", "EUR", "FCT"} {
				v := confAmounts[1+r.Intn(4)]
				list = append(list, opr.AssetUint{Name: name, Value: v})
				if name == "PEG" {
					want[fat2.PTickerPEG] = v
				} else {
					want[fat2.StringToTicker("p"+name)] = v
				}
			}
			err := d.Pegnet.InsertRates(tx, h, list, pegnet.PEGPriceIsFloating)
			if model[h] != nil {
				if err == nil {
					t.Fatalf("CONF leaf=insertRate clause=rates_of_a_height_are_written_once: height %d rated twice", h)
				}
			} else {
				if err != nil {
					t.Fatalf("CONF leaf=InsertRates clause=healthy_and_unrated_means_nil: %v", err)
				}
				model[h] = want
			}
			for hh := uint32(1); hh <= 7; hh++ {
				got, err := d.Pegnet.SelectPendingRates(context.Background(), tx, hh)
				if err != nil {
					t.Fatalf("CONF leaf=SelectPendingRates: %v", err)
				}
				if (len(got) > 0) != (model[hh] != nil) {
					t.Fatalf("CONF leaf=SelectPendingRates clause=len(result)>0<==>Lrated[height] height=%d", hh)
				}
				for k, v := range model[hh] {
					if got[k] != v {
						t.Fatalf("CONF leaf=SelectPendingRates clause=ratesOf(result,Lrate,height) / recorded_rates_immutable height=%d %s: %d vs %d", hh, k, got[k], v)
					}
				}
				_, last, err := d.Pegnet.SelectMostRecentRatesBeforeHeight(context.Background(), tx, hh)
				if err != nil {
					t.Fatalf("CONF leaf=SelectMostRecentRatesBeforeHeight: %v", err)
				}
				exp := uint32(0)
				for x := range model {
					if x < hh && x > exp {
						exp = x
					}
				}
				if last != exp {
					t.Fatalf("CONF leaf=SelectMostRecentRatesBeforeHeight clause=result1==lastRatedBefore(Lrated,height) height=%d: %d vs %d", hh, last, exp)
				}
			}
		}
		tx.Rollback()
	}
	t.Logf("CONF-STATS evaluations=%d (seeded trials)", confTrials)
}

// ---- previous winners (C11): the winners of the latest graded block strictly below the height -----------------------------

func TestConf_PreviousWinners(t *testing.T) {
	r := rand.New(rand.NewSource(6))
	d, done := vfNewNode(t)
	defer done()
	for trial := 0; trial < confTrials; trial++ {
		model := map[uint32]string{}
		if _, err := d.Pegnet.DB.Exec(`DELETE FROM pn_grade`); err != nil {
			t.Fatal(err)
		}
		for k := 0; k < 4; k++ {
			h := uint32(2 + r.Intn(8))
			if _, ok := model[h]; ok {
				continue
			}
			w := fmt.Sprintf(`["%016x"]`, r.Uint64())
			if _, err := d.Pegnet.DB.Exec(`INSERT INTO pn_grade (height, keymr, prevkeymr, eb_seq, shorthashes, version, cutoff, count) VALUES (?, ?, ?, ?, ?, ?, ?, ?)`,
				h, []byte{byte(h)}, []byte{0}, h, []byte(w), 2, 50, 1); err != nil {
				t.Fatal(err)
			}
			model[h] = w
		}
		var hs []int
		for h := range model {
			hs = append(hs, int(h))
		}
		sort.Ints(hs)
		for q := uint32(1); q <= 11; q++ {
			got, err := d.Pegnet.SelectPreviousWinners(context.Background(), q)
			exp := ""
			for _, h := range hs {
				if uint32(h) < q {
					exp = model[uint32(h)]
				}
			}
			if exp == "" {
				if err != sql.ErrNoRows {
					t.Fatalf("CONF leaf=SelectPreviousWinners clause=no_graded_block_below_means_ErrNoRows height=%d: %v %v", q, got, err)
				}
				continue
			}
			if err != nil || fmt.Sprintf(`["%s"]`, got[0]) != exp {
				t.Fatalf("CONF leaf=SelectPreviousWinners clause=winners_of_latest_graded_block_below_height trial=%d height=%d graded=%v: got %v (%v) want %s", trial, q, hs, got, err, exp)
			}
		}
	}
	t.Logf("CONF-STATS evaluations=%d (seeded trials)", confTrials)
}
