package node

// Helpers shared by the bounded conformance tests (overlaid next to every test file of this directory).

import (
	"context"
	"crypto/sha256"
	"database/sql"
	"fmt"
	"github.com/pegnet/pegnet/modules/grader"
	"math/rand"
	"os"
	"strings"
	"testing"
	"time"

	"github.com/Factom-Asset-Tokens/factom"
	"github.com/pegnet/pegnetd/fat/fat2"
	"github.com/pegnet/pegnetd/node/pegnet"
)

// seeded trials per leaf: 60 in the quick tier, 400 in the thorough tier (VERIF_TIER=thorough, set by govc check)
var confTrials = func() int {
	if os.Getenv("VERIF_TIER") == "thorough" {
		return 400
	}
	return 60
}()

var confAmounts = []uint64{0, 1, 2, 7, 100000000, 1 << 40, 1 << 62}

func confAddr(i int) factom.FAAddress {
	var a factom.FAAddress
	for k := range a {
		a[k] = byte(17*i + k + 1)
	}
	return a
}

// ---- abstraction functions (the ghost ledger read back from the tables) ----------------------------------------------

type confBalTable map[factom.FAAddress][]uint64 // address -> balance per ticker (index = ticker)

func confReadBalTable(t testing.TB, q pegnet.QueryAble, table string) confBalTable {
	out := confBalTable{}
	for tk := fat2.PTickerInvalid + 1; tk < fat2.PTickerMax; tk++ {
		col := fmt.Sprintf("%s_balance", lower(tk.String()))
		rows, err := q.Query(fmt.Sprintf(`SELECT address, %s FROM %s`, col, table))
		if err != nil {
			t.Fatalf("abstraction %s.%s: %v", table, col, err)
		}
		for rows.Next() {
			var ab []byte
			var v uint64
			if err := rows.Scan(&ab, &v); err != nil {
				t.Fatal(err)
			}
			var a factom.FAAddress
			copy(a[:], ab)
			if out[a] == nil {
				out[a] = make([]uint64, int(fat2.PTickerMax)+1)
			}
			out[a][tk] = v
		}
		rows.Close()
	}
	return out
}

func lower(s string) string {
	b := []byte(s)
	for i, c := range b {
		if c >= 'A' && c <= 'Z' {
			b[i] = c + 32
		}
	}
	return string(b)
}

func confEqualTables(a, b confBalTable) string {
	for k, va := range a {
		vb, ok := b[k]
		if !ok {
			return fmt.Sprintf("address %x missing", k[:4])
		}
		for i := range va {
			if va[i] != vb[i] {
				return fmt.Sprintf("address %x ticker %s: %d vs %d", k[:4], fat2.PTicker(i), va[i], vb[i])
			}
		}
	}
	for k := range b {
		if _, ok := a[k]; !ok {
			return fmt.Sprintf("address %x extra", k[:4])
		}
	}
	return ""
}

func confBegin(t testing.TB, d *Pegnetd) *sql.Tx {
	tx, err := d.Pegnet.DB.BeginTx(context.Background(), nil)
	if err != nil {
		t.Fatal(err)
	}
	return tx
}

func confRandomCredits(t testing.TB, d *Pegnetd, tx *sql.Tx, r *rand.Rand, n int) {
	for k := 0; k < n; k++ {
		a := confAddr(r.Intn(3))
		tk := fat2.PTicker(1 + r.Intn(int(fat2.PTickerMax)-1))
		v := confAmounts[r.Intn(len(confAmounts)-1)] // keep sums below 2^63
		if _, err := d.Pegnet.AddToBalance(tx, &a, tk, v); err != nil {
			t.Fatalf("AddToBalance: %v", err)
		}
	}
}

func cloneTable(a confBalTable) confBalTable {
	o := confBalTable{}
	for k, v := range a {
		o[k] = append([]uint64(nil), v...)
	}
	return o
}

func confBatch(t testing.TB, r *rand.Rand, nTx int) *fat2.TransactionBatch {
	key, err := factom.GenerateFsAddress()
	if err != nil {
		t.Fatal(err)
	}
	var txs []fat2.Transaction
	for i := 0; i < nTx; i++ {
		var tr fat2.Transaction
		tr.Input.Address = key.FAAddress()
		tr.Input.Type = fat2.PTickerUSD
		tr.Input.Amount = 10
		if r.Intn(3) == 0 {
			tr.Conversion = fat2.PTickerEUR
		} else {
			n := 1 + r.Intn(3)
			for k := 0; k < n; k++ {
				tr.Transfers = append(tr.Transfers, fat2.AddressAmountTuple{Address: confAddr(r.Intn(3)), Amount: uint64(10 / n)})
			}
			tr.Transfers[0].Amount += 10 - uint64(n)*uint64(10/n)
		}
		txs = append(txs, tr)
	}
	e := vfSignedEntry(t, key, txs, time.Time{})
	b, err := fat2.NewTransactionBatch(e, 300000)
	if err != nil {
		t.Fatalf("batch: %v", err)
	}
	return b
}

func newConfRand(seed int64) *rand.Rand { return rand.New(rand.NewSource(seed)) }

func confHash(lines []string) string {
	s := sha256.Sum256([]byte(strings.Join(lines, "\n")))
	return fmt.Sprintf("%x", s[:8])
}

// a stand-in for the grader's result without winners (the pn_winners rows need real graded records)
type confGraded struct {
	grader.GradedBlock
	short []string
}

func (g confGraded) WinnersShortHashes() []string  { return g.short }
func (g confGraded) Winners() []*grader.GradingOPR { return nil }
func (g confGraded) Graded() []*grader.GradingOPR  { return nil }
func (g confGraded) Version() uint8                { return 5 }
func (g confGraded) Cutoff() int                   { return 50 }
func (g confGraded) Count() int                    { return 0 }
