package node

// BOUNDED stand-in for the assumed contract of multiFetch (goroutines and channels put it outside the verified subset):
//
//   ensures result == nil ==> every entry of the block is populated with exactly the data the chain holds for its hash
//   ensures a fault on any single upstream request is either reported (result != nil) or has no effect on what is delivered
//
// A small JSON-RPC stand-in for factomd serves one entry block; for every request index k and for two kinds of fault (an RPC
// error, and a reply that parses but carries altered entry content) exactly the k-th request is faulted.
// Bounds: entry blocks of 1, 3, 9 and 20 entries; every request index; 2 fault kinds; 3 repetitions (goroutine scheduling).

import (
	"bytes"
	"encoding/binary"
	"encoding/hex"
	"encoding/json"
	"io/ioutil"
	"net/http"
	"net/http/httptest"
	"sync"
	"testing"

	"github.com/Factom-Asset-Tokens/factom"
	"github.com/pegnet/pegnetd/config"
)

type confFactomd struct {
	mu       sync.Mutex
	raw      map[string][]byte
	isEntry  map[string]bool
	requests int
	failAt   int
	kind     int // 0 rpc error, 1 altered entry content (still parses)
	fired    bool
}

func (f *confFactomd) ServeHTTP(w http.ResponseWriter, r *http.Request) {
	body, _ := ioutil.ReadAll(r.Body)
	var req struct {
		ID     json.RawMessage `json:"id"`
		Method string          `json:"method"`
		Params json.RawMessage `json:"params"`
	}
	json.Unmarshal(body, &req)
	f.mu.Lock()
	idx := f.requests
	f.requests++
	fail := idx == f.failAt
	f.mu.Unlock()
	reply := func(result, rpcErr interface{}) {
		resp := map[string]interface{}{"jsonrpc": "2.0", "id": req.ID}
		if rpcErr != nil {
			resp["error"] = rpcErr
		} else {
			resp["result"] = result
		}
		w.Header().Set("Content-Type", "application/json")
		json.NewEncoder(w).Encode(resp)
	}
	if req.Method != "raw-data" {
		reply(nil, map[string]interface{}{"code": -32601, "message": "Method not found"})
		return
	}
	var p struct {
		Hash string `json:"hash"`
	}
	json.Unmarshal(req.Params, &p)
	data, ok := f.raw[p.Hash]
	if !ok {
		reply(nil, map[string]interface{}{"code": -32008, "message": "Object not found"})
		return
	}
	if fail {
		f.mu.Lock()
		f.fired = true
		f.mu.Unlock()
		if f.kind == 0 || !f.isEntry[p.Hash] {
			reply(nil, map[string]interface{}{"code": -32603, "message": "injected transient fault"})
			return
		}
		bad := append([]byte{}, data...)
		bad[len(bad)-1] ^= 0x01 // same structure, other content: the hash no longer matches
		data = bad
	}
	reply(map[string]interface{}{"data": hex.EncodeToString(data)}, nil)
}

func confU32(b []byte, v uint32) []byte {
	var buf [4]byte
	binary.BigEndian.PutUint32(buf[:], v)
	return append(b, buf[:]...)
}

// confEBlock builds n entries and their entry block; returns the key MR and the content per entry hash
func confEBlock(t *testing.T, f *confFactomd, n int) (factom.Bytes32, map[factom.Bytes32][]byte) {
	chain := config.TransactionChain
	content := map[factom.Bytes32][]byte{}
	var objects [][]byte
	for i := 0; i < n; i++ {
		e := factom.Entry{ChainID: &chain, ExtIDs: []factom.Bytes{{byte(i)}, {0x01}}, Content: []byte{byte(i), 0x55, 0xaa, byte(n)}}
		data, err := e.MarshalBinary()
		if err != nil {
			t.Fatal(err)
		}
		h := factom.ComputeEntryHash(data)
		f.raw[hex.EncodeToString(h[:])] = data
		f.isEntry[hex.EncodeToString(h[:])] = true
		content[h] = e.Content
		objects = append(objects, append([]byte{}, h[:]...))
	}
	marker := factom.Bytes32{31: 1}
	objects = append(objects, marker[:])
	bodyMR, err := factom.ComputeEBlockBodyMR(objects)
	if err != nil {
		t.Fatal(err)
	}
	eb := make([]byte, 0, factom.EBlockHeaderLen+32*len(objects))
	eb = append(eb, chain[:]...)
	eb = append(eb, bodyMR[:]...)
	eb = append(eb, make([]byte, 64)...)
	eb = confU32(eb, 1)
	eb = confU32(eb, 300001)
	eb = confU32(eb, uint32(len(objects)))
	for _, o := range objects {
		eb = append(eb, o...)
	}
	hh := factom.ComputeEBlockHeaderHash(eb)
	keyMR := factom.ComputeKeyMR(&hh, &bodyMR)
	f.raw[hex.EncodeToString(keyMR[:])] = eb
	return keyMR, content
}

func TestConf_MultiFetch(t *testing.T) {
	evals := 0
	sizes := []int{1, 3, 9, 20}
	reps := 3
	if confTrials > 100 {
		reps = 10
	}
	for _, n := range sizes {
		f := &confFactomd{raw: map[string][]byte{}, isEntry: map[string]bool{}, failAt: -1}
		keyMR, content := confEBlock(t, f, n)
		srv := httptest.NewServer(f)
		cl := factom.NewClient()
		cl.FactomdServer = srv.URL
		for kind := 0; kind < 2; kind++ {
			for failAt := -1; failAt <= n; failAt++ { // request 0 is the entry block itself
				for rep := 0; rep < reps; rep++ {
					f.mu.Lock()
					f.requests, f.failAt, f.kind, f.fired = 0, failAt, kind, false
					f.mu.Unlock()
					chain := config.TransactionChain
					km := keyMR
					eb := &factom.EBlock{ChainID: &chain, KeyMR: &km}
					err := multiFetch(eb, cl)
					evals++
					if failAt < 0 && err != nil {
						srv.Close()
						t.Fatalf("CONF leaf=multiFetch clause=healthy_means_nil entries=%d: %v", n, err)
					}
					if err != nil {
						continue // the fault was reported: the caller rolls the block back and retries
					}
					if len(eb.Entries) != n {
						srv.Close()
						t.Fatalf("CONF leaf=multiFetch clause=nil_means_every_entry_fetched entries=%d: %d entries", n, len(eb.Entries))
					}
					for k := range eb.Entries {
						e := eb.Entries[k]
						want, ok := content[*e.Hash]
						if !ok || !e.IsPopulated() || !bytes.Equal(e.Content, want) {
							srv.Close()
							t.Fatalf("CONF leaf=multiFetch clause=nil_means_every_entry_fetched_intact entries=%d fault_kind=%d faulted_request=%d (fault fired: %v): multiFetch returned nil but entry %d is populated=%v with content %x (chain holds %x)", n, kind, failAt, f.fired, k, e.IsPopulated(), e.Content, want)
						}
					}
				}
			}
		}
		srv.Close()
	}
	t.Logf("CONF-STATS evaluations=%d (block size x fault kind x faulted request x repetition)", evals)
}
