package node

// BOUNDED check standing in for the contract of (*Pegnetd).GetPegNetRateAverages (closures, defer and in-place slice
// shifting put the function outside the verified subset):
//
//     ensures avgOf(result, height)      -- the result is a function of the recorded rates and the height only,
//                                           whatever the in-memory cache held before the call (C09)
//
// The sync routine asks for the averages at the last rated height before every rated block, in increasing order.  For
// every bounded rate history the test replays exactly that call sequence (a) without ever restarting, and (b) with a
// restart (empty cache) before call r, for every r, and requires identical answers.
//
// Bounds: AveragePeriod shrunk to 4 (AverageRequired 2), heights 1..9, every rated/unrated pattern of the 9 heights
// (split into the gap-free chains of every length, with asset B first reported at any height, and the patterns with unrated heights, asset B from height 1, 3 or 6), rates from a
// fixed pseudo-random table; in the gap-free family a third asset is recorded at every height, priced 0 at no height, at any
// single height or at any two adjacent heights (a graded block records 0 for an asset the winners did not price).

import (
	"context"
	"crypto/sha256"
	"fmt"
	"os"
	"reflect"
	"strings"
	"testing"

	"github.com/pegnet/pegnetd/config"
	"github.com/pegnet/pegnetd/fat/fat2"
)

// heights explored: 9 in the quick tier, 10 in the thorough tier
var confAvgN = func() int {
	if os.Getenv("VERIF_TIER") == "thorough" {
		return 10
	}
	return 9
}()

// zeroAt: heights (bit h-1) at which a third asset (pXAU) is recorded with rate 0, as a graded block records an asset the
// winners did not price; 0 means the third asset is not recorded at all (the histories with unrated heights keep exactly
// the two assets their recorded failure set was taken with)
func confAvgSetup(t *testing.T, d *Pegnetd, rated uint, bStart int, zeroAt ...uint) []uint32 {
	if _, err := d.Pegnet.DB.Exec(`DELETE FROM pn_rate`); err != nil {
		t.Fatal(err)
	}
	var heights []uint32
	for h := 1; h <= confAvgN; h++ {
		if rated&(1<<uint(h-1)) == 0 {
			continue
		}
		heights = append(heights, uint32(h))
		va := uint64(1000 + 37*h*h%211)
		if _, err := d.Pegnet.DB.Exec(`INSERT INTO pn_rate (height, token, value) VALUES (?, ?, ?)`, h, "pUSD", va); err != nil {
			t.Fatal(err)
		}
		if len(zeroAt) > 0 {
			vc := uint64(300 + 53*h%97)
			if zeroAt[0]&(1<<uint(h-1)) != 0 {
				vc = 0
			}
			if _, err := d.Pegnet.DB.Exec(`INSERT INTO pn_rate (height, token, value) VALUES (?, ?, ?)`, h, "pXAU", vc); err != nil {
				t.Fatal(err)
			}
		}
		if h >= bStart {
			vb := uint64(500 + 91*h%173)
			if _, err := d.Pegnet.DB.Exec(`INSERT INTO pn_rate (height, token, value) VALUES (?, ?, ?)`, h, "pEUR", vb); err != nil {
				t.Fatal(err)
			}
		}
	}
	return heights
}

func confAvgReset(d *Pegnetd) {
	d.LastAveragesData = nil
	d.LastAverages = nil
	d.LastAveragesHeight = 0
}

// the call sequence of the sync routine: before rated block c, the averages at the previous rated height
func confAvgRun(d *Pegnetd, heights []uint32, restartBefore int) []map[fat2.PTicker]uint64 {
	confAvgReset(d)
	var out []map[fat2.PTicker]uint64
	for k := 0; k+1 < len(heights); k++ {
		if k == restartBefore {
			confAvgReset(d)
		}
		m := d.GetPegNetRateAverages(context.Background(), heights[k]).(map[fat2.PTicker]uint64)
		cp := map[fat2.PTicker]uint64{}
		for a, v := range m {
			cp[a] = v
		}
		out = append(out, cp)
	}
	return out
}

func confAverages(t *testing.T, gaps bool) {
	oldP, oldR := AveragePeriod, AverageRequired
	AveragePeriod, AverageRequired = 4, 2
	defer func() { AveragePeriod, AverageRequired = oldP, oldR }()
	d, done := vfNewNode(t)
	defer done()
	histories := 0
	var failures []string
	for rated := uint(1); rated < 1<<confAvgN; rated++ {
		full := rated&(rated+1) == 0 // heights 1..L all rated, nothing after (a chain of length L without gaps)
		if gaps == full {
			continue
		}
		if gaps && rated&1 == 0 {
			continue // start at height 1 (shifts of a history add nothing)
		}
		starts := []int{1, 3, 6}
		if !gaps {
			starts = nil // the ordinary chain: the second asset may first be reported at any height
			for b := 1; b <= confAvgN; b++ {
				starts = append(starts, b)
			}
		}
		// zero-priced samples of a third asset: none, every single height, every pair of adjacent heights (gap-free family only)
		var zeros [][]uint
		if gaps {
			zeros = [][]uint{nil}
		} else {
			zeros = [][]uint{{0}}
			for z := 0; z < confAvgN; z++ {
				zeros = append(zeros, []uint{1 << uint(z)})
				if z+1 < confAvgN {
					zeros = append(zeros, []uint{3 << uint(z)})
				}
			}
		}
		for _, bStart := range starts {
			for _, zeroAt := range zeros {
				if len(zeroAt) > 0 && zeroAt[0] != 0 && bStart != 1 && bStart != 4 {
					continue // the zero-priced dimension is combined with two of the start heights of the second asset
				}
				heights := confAvgSetup(t, d, rated, bStart, zeroAt...)
				if len(heights) < 3 {
					continue
				}
				histories++
				cont := confAvgRun(d, heights, -1)
				for r := 1; r+1 < len(heights); r++ {
					got := confAvgRun(d, heights, r)
					for k := range cont {
						if !reflect.DeepEqual(cont[k], got[k]) {
							failures = append(failures, fmt.Sprintf("%v/%d/r%d/h%d/%s/%s", heights, bStart, heights[r], heights[k], fmtAvg(cont[k]), fmtAvg(got[k])))
							if len(failures) > 1 {
								continue
							}
							t.Errorf("CONF leaf=GetPegNetRateAverages clause=result_depends_only_on_recorded_rates_and_height (restart independence) rated_heights=%v assetB_from=%d third_asset_zero_at=%v: averages at height %d are %v on a node that never restarted and %v on a node restarted before the call for height %d",
								heights, bStart, zeroAt, heights[k], fmtAvg(cont[k]), fmtAvg(got[k]), heights[r])
						}
					}
				}
			}
		}
	}
	if len(failures) > 0 {
		// signature of the complete set of failing (history, restart point, height, answers): a recorded finding only
		// covers exactly this set
		sum := sha256.Sum256([]byte(strings.Join(failures, "\n")))
		t.Errorf("CONF-SIG sha=%x n=%d", sum[:8], len(failures))
	}
	t.Logf("CONF-STATS evaluations=%d (rate histories, each replayed once without and once per possible restart point)", histories)
}

func fmtAvg(m map[fat2.PTicker]uint64) string {
	if v, ok := m[fat2.PTickerXAU]; ok {
		return fmt.Sprintf("{pUSD:%d pEUR:%d pXAU:%d}", m[fat2.PTickerUSD], m[fat2.PTickerEUR], v)
	}
	return fmt.Sprintf("{pUSD:%d pEUR:%d}", m[fat2.PTickerUSD], m[fat2.PTickerEUR])
}

// every height rated (the ordinary chain): must hold
func TestConf_AveragesRestartIndependent_AllBlocksRated(t *testing.T) { confAverages(t, false) }

// histories with unrated heights
func TestConf_AveragesRestartIndependent_WithUnratedBlocks(t *testing.T) { confAverages(t, true) }

// ---- faults while reading the rates (C10) ----------------------------------------------------------------------------
// GetPegNetRateAverages has no error result: a failed read of the recorded rates must be FATAL (it panics; the daemon
// restarts with an empty cache and the block is retried) or have no effect on any averages handed out afterwards.  The k-th
// rates query of the sync routine's call sequence is failed once, for every k, in an era where conversions do not use the
// averages yet and in one where they do; every answer (after the emulated restart, if it panicked) must equal the
// fault-free answer.  Bounds: AveragePeriod 4, 8 rated heights, 2 assets, 2 eras, every query index.
func TestConf_AveragesUnderReadFaults(t *testing.T) {
	oldP, oldR := AveragePeriod, AverageRequired
	AveragePeriod, AverageRequired = 4, 2
	defer func() { AveragePeriod, AverageRequired = oldP, oldR }()
	d, done := vfNewNode(t)
	defer done()
	evals := 0
	for _, base := range []uint32{1000, config.PIP10AverageActivation + 1000} {
		if _, err := d.Pegnet.DB.Exec(`DELETE FROM pn_rate`); err != nil {
			t.Fatal(err)
		}
		var heights []uint32
		for i := 1; i <= 8; i++ {
			h := base + uint32(i)
			heights = append(heights, h)
			for _, tv := range []struct {
				n string
				v uint64
			}{{"pUSD", uint64(1000 + 37*i*i%211)}, {"pEUR", uint64(500 + 91*i%173)}} {
				if _, err := d.Pegnet.DB.Exec(`INSERT INTO pn_rate (height, token, value) VALUES (?, ?, ?)`, h, tv.n, tv.v); err != nil {
					t.Fatal(err)
				}
			}
		}
		run := func(faultAt int) (out []map[fat2.PTicker]uint64, panics int, fired int) {
			confAvgReset(d)
			vfSetFault("pn_rate", faultAt) // any statement that reads the rates table
			defer vfSetFault("", 0)
			for _, h := range heights {
				var m map[fat2.PTicker]uint64
				call := func() (ok bool) {
					defer func() {
						if recover() != nil {
							ok = false
						}
					}()
					m = d.GetPegNetRateAverages(context.Background(), h).(map[fat2.PTicker]uint64)
					return true
				}
				if !call() {
					panics++
					confAvgReset(d) // the daemon died: a new process starts with an empty cache and asks again
					if !call() {
						t.Fatalf("fixture: second panic in a row at height %d", h)
					}
				}
				cp := map[fat2.PTicker]uint64{}
				for a, v := range m {
					cp[a] = v
				}
				out = append(out, cp)
			}
			return out, panics, vfFaultFired()
		}
		ref, p0, _ := run(1 << 30)
		if p0 != 0 {
			t.Fatalf("fixture: the fault-free run panics")
		}
		for k := 1; ; k++ {
			got, panics, fired := run(k)
			if fired == 0 {
				break // fewer than k rate queries in the sequence
			}
			evals++
			for i := range ref {
				if !reflect.DeepEqual(ref[i], got[i]) {
					t.Errorf("CONF leaf=GetPegNetRateAverages clause=a_failed_rates_read_is_fatal_or_harmless base_height=%d: rates query %d failed once (%d panics/restarts); the averages at height %d are %v, fault-free %v", base, k, panics, heights[i], fmtAvg(got[i]), fmtAvg(ref[i]))
					break
				}
			}
			if t.Failed() {
				break
			}
		}
	}
	t.Logf("CONF-STATS evaluations=%d (era x faulted rates query)", evals)
}
