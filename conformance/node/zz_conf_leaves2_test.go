package node

// BOUNDED conformance checks, second group: bank rows, the holding query, the sync-version aggregates, issuance sums and the
// top-100 staking eligibility query.  Same conventions as zz_conf_leaves_test.go.

import (
	"context"
	"math/rand"
	"sort"
	"testing"

	"github.com/Factom-Asset-Tokens/factom"
	"github.com/pegnet/pegnetd/fat/fat2"
	"github.com/pegnet/pegnetd/node/pegnet"
)

// ---- pn_bank (C16): one row per height; insert opens it with used/requested = -1; update needs the row ------------------

func TestConf_Bank(t *testing.T) {
	r := rand.New(rand.NewSource(11))
	d, done := vfNewNode(t)
	defer done()
	for trial := 0; trial < confTrials; trial++ {
		tx := confBegin(t, d)
		type row struct{ amt, used, req int64 }
		model := map[int32]*row{}
		for step := 0; step < 10; step++ {
			h := int32(1 + r.Intn(5))
			switch r.Intn(3) {
			case 0:
				amt := int64(confAmounts[r.Intn(len(confAmounts)-1)])
				err := d.Pegnet.InsertBankAmount(tx, h, amt)
				if model[h] != nil {
					if err == nil {
						t.Fatalf("CONF leaf=InsertBankAmount clause=result==nil==>!old(LbankPresent)[height]: height %d opened twice", h)
					}
				} else {
					if err != nil {
						t.Fatalf("CONF leaf=InsertBankAmount clause=healthy_and_absent_means_nil: %v", err)
					}
					model[h] = &row{amt, -1, -1}
				}
			case 1:
				used, req := int64(r.Intn(1000)), int64(r.Intn(100000))
				err := d.Pegnet.UpdateBankEntry(tx, h, used, req)
				if model[h] == nil {
					if err == nil {
						t.Fatalf("CONF leaf=UpdateBankEntry clause=result==nil==>LbankPresent[height]: update of a missing row at %d succeeded", h)
					}
				} else {
					if err != nil {
						t.Fatalf("CONF leaf=UpdateBankEntry clause=healthy_and_present_means_nil: %v", err)
					}
					model[h].used, model[h].req = used, req
				}
			}
			for hh := int32(1); hh <= 6; hh++ {
				e, err := d.Pegnet.SelectBankEntry(tx, hh)
				if err != nil {
					t.Fatalf("CONF leaf=SelectBankEntry clause=healthy_means_nil: %v", err)
				}
				if m := model[hh]; m == nil {
					if e.Height != -1 || e.BankAmount != -1 {
						t.Fatalf("CONF leaf=SelectBankEntry clause=absent_row_is_(-1,-1) height=%d: %+v", hh, e)
					}
				} else if e.Height != hh || e.BankAmount != m.amt || e.BankUsed != m.used || e.PEGRequested != m.req {
					t.Fatalf("CONF leaf=SelectBankEntry/InsertBankAmount/UpdateBankEntry clause=row_equals_ghost_bank height=%d: %+v vs %+v", hh, e, *m)
				}
			}
		}
		tx.Rollback()
	}
	t.Logf("CONF-STATS evaluations=%d (seeded trials)", confTrials)
}

// ---- holding query (C06 C07): exactly the batches held at that height, each once --------------------------------------------

func TestConf_HoldingQuery(t *testing.T) {
	r := rand.New(rand.NewSource(12))
	d, done := vfNewNode(t)
	defer done()
	trials := confTrials / 4
	for trial := 0; trial < trials; trial++ {
		if _, err := d.Pegnet.DB.Exec(`DELETE FROM pn_transaction_batch_holding`); err != nil {
			t.Fatal(err)
		}
		model := map[uint64]map[factom.Bytes32]bool{}
		tx := confBegin(t, d)
		for k := 0; k < 5; k++ {
			b := confBatch(t, r, 1+r.Intn(2))
			h := uint64(300000 + r.Intn(3))
			var keymr factom.Bytes32
			if _, err := d.Pegnet.InsertTransactionBatchHolding(tx, b, h, &keymr); err != nil {
				t.Fatal(err)
			}
			if model[h] == nil {
				model[h] = map[factom.Bytes32]bool{}
			}
			model[h][*b.Entry.Hash] = true
		}
		if err := tx.Commit(); err != nil { // the query reads through the pool
			t.Fatal(err)
		}
		for h := uint64(299999); h <= 300003; h++ {
			got, err := d.Pegnet.SelectTransactionBatchesInHoldingAtHeight(h)
			if err != nil {
				t.Fatalf("CONF leaf=SelectTransactionBatchesInHoldingAtHeight: %v", err)
			}
			seen := map[factom.Bytes32]bool{}
			for _, b := range got {
				if b == nil || b.Entry.Hash == nil {
					t.Fatalf("CONF leaf=SelectTransactionBatchesInHoldingAtHeight clause=shape")
				}
				if seen[*b.Entry.Hash] {
					t.Fatalf("CONF leaf=SelectTransactionBatchesInHoldingAtHeight clause=pairwise_distinct_entry_hashes height=%d", h)
				}
				seen[*b.Entry.Hash] = true
				if !model[h][*b.Entry.Hash] {
					t.Fatalf("CONF leaf=SelectTransactionBatchesInHoldingAtHeight clause=Lhold[hash]==height height=%d: batch held at another height returned", h)
				}
			}
			if len(seen) != len(model[h]) {
				t.Fatalf("CONF leaf=SelectTransactionBatchesInHoldingAtHeight clause=every_batch_held_at_the_height_is_returned height=%d: %d of %d", h, len(seen), len(model[h]))
			}
		}
	}
	d.Pegnet.DB.Exec(`DELETE FROM pn_transaction_batch_holding`)
	t.Logf("CONF-STATS evaluations=%d (seeded trials)", trials)
}

// ---- sync-version aggregates (C19): min/max height, min/max version from a height -------------------------------------------

func TestConf_SyncAggregates(t *testing.T) {
	r := rand.New(rand.NewSource(13))
	d, done := vfNewNode(t)
	defer done()
	for trial := 0; trial < confTrials; trial++ {
		tx := confBegin(t, d)
		model := map[uint32]int{}
		n := r.Intn(5)
		for k := 0; k < n; k++ {
			h := uint32(1 + r.Intn(8))
			if _, ok := model[h]; ok {
				continue
			}
			v := r.Intn(5) - 1
			if _, err := tx.Exec(`INSERT INTO pn_sync_version (height, version, unix_timestamp) VALUES (?, ?, 0)`, h, v); err != nil {
				t.Fatal(err)
			}
			model[h] = v
		}
		var hs []int
		for h := range model {
			hs = append(hs, int(h))
		}
		sort.Ints(hs)
		lo, err1 := d.Pegnet.LowestSynced(tx)
		hi, err2 := d.Pegnet.HighestSynced(tx)
		if err1 != nil || err2 != nil {
			t.Fatalf("CONF leaf=LowestSynced/HighestSynced clause=healthy_means_nil: %v %v", err1, err2)
		}
		wl, wh := uint32(0), uint32(0)
		if len(hs) > 0 {
			wl, wh = uint32(hs[0]), uint32(hs[len(hs)-1])
		}
		if lo != wl || hi != wh {
			t.Fatalf("CONF leaf=LowestSynced/HighestSynced clause=isMinH/isMaxH heights=%v: %d..%d", hs, lo, hi)
		}
		for from := uint32(0); from <= 9; from++ {
			mn, e1 := d.Pegnet.FetchMinSyncedVersion(tx, from)
			mx, e2 := d.Pegnet.FetchMaxSyncedVersion(tx, from)
			if e1 != nil || e2 != nil {
				t.Fatalf("CONF leaf=FetchMin/MaxSyncedVersion: %v %v", e1, e2)
			}
			wmn, wmx, any := 0, 0, false
			for h, v := range model {
				if h >= from {
					if !any || v < wmn {
						wmn = v
					}
					if !any || v > wmx {
						wmx = v
					}
					any = true
				}
			}
			if !any {
				wmn, wmx = -1, -1
			}
			if mn != wmn || mx != wmx {
				t.Fatalf("CONF leaf=FetchMin/MaxSyncedVersion clause=isMinVerFrom/isMaxVerFrom rows=%v from=%d: %d..%d want %d..%d", model, from, mn, mx, wmn, wmx)
			}
		}
		tx.Rollback()
	}
	t.Logf("CONF-STATS evaluations=%d (seeded trials)", confTrials)
}

// ---- issuance sums (C12 equation phase) and the top-100 PEG holders query (C11) -------------------------------------------------

func TestConf_IssuanceAndTop100(t *testing.T) {
	r := rand.New(rand.NewSource(14))
	d, done := vfNewNode(t)
	defer done()
	trials := confTrials / 4
	for trial := 0; trial < trials; trial++ {
		if _, err := d.Pegnet.DB.Exec(`DELETE FROM pn_addresses`); err != nil {
			t.Fatal(err)
		}
		tx := confBegin(t, d)
		n := 95 + r.Intn(12) // around the limit of 100
		pegOf := map[factom.FAAddress]uint64{}
		for i := 0; i < n; i++ {
			var a factom.FAAddress
			a[0], a[1], a[2] = byte(i), byte(i>>8), byte(trial)
			v := uint64(r.Intn(50)) // ties and zeros on purpose
			if _, err := d.Pegnet.AddToBalance(tx, &a, fat2.PTickerPEG, v); err != nil {
				t.Fatal(err)
			}
			pegOf[a] = v
			if r.Intn(3) == 0 {
				d.Pegnet.AddToBalance(tx, &a, fat2.PTicker(2+r.Intn(int(fat2.PTickerMax)-2)), confAmounts[1+r.Intn(4)])
			}
		}
		if err := tx.Commit(); err != nil {
			t.Fatal(err)
		}
		tab := confReadBalTable(t, d.Pegnet.DB, "pn_addresses")
		iss, err := d.Pegnet.SelectIssuances()
		if err != nil {
			t.Fatalf("CONF leaf=SelectIssuances: %v", err)
		}
		for tk := fat2.PTickerInvalid + 1; tk < fat2.PTickerMax; tk++ {
			var sum uint64
			for _, row := range tab {
				sum += row[tk]
			}
			if iss[tk] != sum {
				t.Fatalf("CONF leaf=SelectIssuances clause=result[t]==sum_of_balances(t) ticker=%s: %d vs %d", tk, iss[tk], sum)
			}
		}
		// top 100 by PEG balance among the positive ones: an address strictly above the 100th balance is included, one strictly
		// below (or with 0) is not (ties at the boundary are unspecified)
		var pos []uint64
		for _, v := range pegOf {
			if v > 0 {
				pos = append(pos, v)
			}
		}
		sort.Slice(pos, func(i, j int) bool { return pos[i] > pos[j] })
		cut := uint64(0)
		if len(pos) > 100 {
			cut = pos[99]
		}
		for a, v := range pegOf {
			a := a
			in := d.Pegnet.IsIncludedTopPEGAddress(a[:])
			if v == 0 && in {
				t.Fatalf("CONF leaf=IsIncludedTopPEGAddress clause=zero_balance_is_not_a_top_holder")
			}
			if v > cut && !in {
				t.Fatalf("CONF leaf=IsIncludedTopPEGAddress clause=balance_above_the_100th_is_included: %d > %d", v, cut)
			}
			if len(pos) > 100 && v < cut && in {
				t.Fatalf("CONF leaf=IsIncludedTopPEGAddress clause=balance_below_the_100th_is_excluded: %d < %d", v, cut)
			}
		}
	}
	d.Pegnet.DB.Exec(`DELETE FROM pn_addresses`)
	t.Logf("CONF-STATS evaluations=%d (seeded trials)", trials)
}

// ---- history paging (C17): every recorded action is returned exactly once by hash, by address and by height across pages ----

func TestConf_HistoryPaging(t *testing.T) {
	r := rand.New(rand.NewSource(15))
	d, done := vfNewNode(t)
	defer done()
	trials := 3
	if confTrials > 100 {
		trials = 10
	}
	for trial := 0; trial < trials; trial++ {
		for _, tb := range []string{"pn_history_txbatch", "pn_history_transaction", "pn_history_lookup"} {
			if _, err := d.Pegnet.DB.Exec(`DELETE FROM ` + tb); err != nil {
				t.Fatal(err)
			}
		}
		tx := confBegin(t, d)
		h := uint32(300000)
		type key struct {
			hash factom.Bytes32
			idx  int
		}
		all := map[key]bool{}
		content := map[key]fat2.Transaction{} // what was recorded under each (hash, index)
		byAddr := map[factom.FAAddress]map[key]bool{}
		nb := 40 + r.Intn(30) // 40..69 batches of 1..3 transactions: more than two pages of 50 at one height
		for b := 0; b < nb; b++ {
			batch := confBatch(t, r, 1+r.Intn(3))
			if err := d.Pegnet.InsertTransactionHistoryTxBatch(tx, b, batch, h); err != nil {
				t.Fatal(err)
			}
			for i, tr := range batch.Transactions {
				k := key{*batch.Entry.Hash, i}
				all[k] = true
				content[k] = tr
				parties := []factom.FAAddress{tr.Input.Address}
				for _, o := range tr.Transfers {
					parties = append(parties, o.Address)
				}
				for _, a := range parties {
					if byAddr[a] == nil {
						byAddr[a] = map[key]bool{}
					}
					byAddr[a][k] = true
				}
			}
		}
		if err := tx.Commit(); err != nil {
			t.Fatal(err)
		}
		page := func(what string, want map[key]bool, fetch func(off int) ([]pegnet.HistoryTransaction, int, error)) {
			for _, desc := range []bool{false, true} {
				_ = desc
			}
			seen := map[key]int{}
			total := -1
			for off := 0; ; off += pegnet.QueryLimit {
				acts, count, err := fetch(off)
				if err != nil {
					if off > 0 && off >= total {
						break
					}
					t.Fatalf("CONF leaf=historySelectHelper(%s) offset=%d: %v", what, off, err)
				}
				if total < 0 {
					total = count
				}
				if count != len(want) {
					t.Fatalf("CONF leaf=historySelectHelper(%s) clause=count_equals_number_of_recorded_actions: %d vs %d", what, count, len(want))
				}
				for _, a := range acts {
					k := key{*a.Hash, a.TxIndex}
					seen[k]++
					// the returned action reads as it was recorded, whatever rows share the page with it
					tr, ok := content[k]
					if !ok {
						continue
					}
					if a.FromAddress == nil || *a.FromAddress != tr.Input.Address || a.FromAsset != tr.Input.Type.String() || a.FromAmount != int64(tr.Input.Amount) {
						t.Fatalf("CONF leaf=historySelectHelper(%s) clause=returned_action_equals_recorded_action (input) trial=%d action (%x,%d)", what, trial, k.hash[:4], k.idx)
					}
					if tr.IsConversion() {
						if a.TxAction != pegnet.Conversion || a.ToAsset != tr.Conversion.String() || len(a.Outputs) != 0 {
							t.Fatalf("CONF leaf=historySelectHelper(%s) clause=returned_action_equals_recorded_action trial=%d: conversion (%x,%d) into %s is returned as action %d into %q with %d outputs %v", what, trial, k.hash[:4], k.idx, tr.Conversion, a.TxAction, a.ToAsset, len(a.Outputs), a.Outputs)
						}
					} else {
						bad := a.TxAction != pegnet.Transfer || len(a.Outputs) != len(tr.Transfers)
						for j := 0; !bad && j < len(tr.Transfers); j++ {
							bad = a.Outputs[j].Address != tr.Transfers[j].Address || a.Outputs[j].Amount != int64(tr.Transfers[j].Amount)
						}
						if bad {
							t.Fatalf("CONF leaf=historySelectHelper(%s) clause=returned_action_equals_recorded_action trial=%d: transfer (%x,%d) with outputs %v is returned as action %d with outputs %v", what, trial, k.hash[:4], k.idx, tr.Transfers, a.TxAction, a.Outputs)
						}
					}
				}
				if len(acts) < pegnet.QueryLimit {
					break
				}
			}
			for k := range want {
				if seen[k] != 1 {
					t.Fatalf("CONF leaf=historySelectHelper(%s) clause=each_recorded_action_returned_exactly_once_across_pages trial=%d: action (%x,%d) returned %d times (%d actions, %d distinct returned)", what, trial, k.hash[:4], k.idx, seen[k], len(want), len(seen))
				}
			}
			for k := range seen {
				if !want[k] {
					t.Fatalf("CONF leaf=historySelectHelper(%s) clause=only_matching_actions_returned", what)
				}
			}
		}
		for _, desc := range []bool{false, true} {
			desc := desc
			page("height", all, func(off int) ([]pegnet.HistoryTransaction, int, error) {
				return d.Pegnet.SelectTransactionHistoryActionsByHeight(h, pegnet.HistoryQueryOptions{Offset: off, Desc: desc})
			})
			for i := 0; i < 3; i++ {
				a := confAddr(i)
				if len(byAddr[a]) == 0 {
					continue
				}
				page("address", byAddr[a], func(off int) ([]pegnet.HistoryTransaction, int, error) {
					return d.Pegnet.SelectTransactionHistoryActionsByAddress(&a, pegnet.HistoryQueryOptions{Offset: off, Desc: desc})
				})
			}
		}
		// by hash: the actions of one batch
		for k := range all {
			want := map[key]bool{}
			for k2 := range all {
				if k2.hash == k.hash {
					want[k2] = true
				}
			}
			hh := k.hash
			page("entry_hash", want, func(off int) ([]pegnet.HistoryTransaction, int, error) {
				return d.Pegnet.SelectTransactionHistoryActionsByHash(&hh, pegnet.HistoryQueryOptions{Offset: off})
			})
			break
		}
	}
	for _, tb := range []string{"pn_history_txbatch", "pn_history_transaction", "pn_history_lookup"} {
		d.Pegnet.DB.Exec(`DELETE FROM ` + tb)
	}
	t.Logf("CONF-STATS evaluations=%d (seeded histories of 40..69 batches)", trials)
}

var _ = context.Background
