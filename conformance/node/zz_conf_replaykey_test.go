package node

// BOUNDED scenario check of a clause of C05/C06 that the contracts do not reach (it is about the relation between the entry
// hash used as replay key and what the signature covers): "a signed batch is executed at most once, whoever re-submits it".
//
// For ed25519 (RCD type 1) the signature is unique for a message, so a re-submitted entry has the same entry hash and is
// recognised as a replay.  For secp256k1 (RCD type 0x0e) the 65th signature byte (the recovery id) is not covered by the
// signature check but is part of the entry hash: a third party can alter it and obtain a valid entry with a NEW hash.

import (
	"testing"
	"time"

	"github.com/Factom-Asset-Tokens/factom"
	"github.com/Factom-Asset-Tokens/factom/fat103"
	"github.com/pegnet/pegnetd/config"
	"github.com/pegnet/pegnetd/fat/fat2"
)

func TestConf_ReplayKeyCoversTheSignature(t *testing.T) {
	h := config.V20HeightActivation + 1000
	chain := config.TransactionChain
	bad := 0
	for _, kind := range []string{"ed25519", "secp256k1"} {
		d, done := vfNewNode(t)
		var signer factom.RCDSigner
		var from factom.FAAddress
		if kind == "ed25519" {
			k, _ := factom.GenerateFsAddress()
			signer, from = k, k.FAAddress()
		} else {
			k, err := factom.GenerateEthSecret()
			if err != nil {
				t.Fatal(err)
			}
			signer, from = k, k.FAAddress()
		}
		to := confAddr(2)
		tx := confBegin(t, d)
		if _, err := d.Pegnet.AddToBalance(tx, &from, fat2.PTickerUSD, 10); err != nil {
			t.Fatal(err)
		}
		var tr fat2.Transaction
		tr.Input.Address, tr.Input.Type, tr.Input.Amount = from, fat2.PTickerUSD, 5
		tr.Transfers = []fat2.AddressAmountTuple{{Address: to, Amount: 5}}
		b := fat2.TransactionBatch{Version: 1, Transactions: []fat2.Transaction{tr}}
		content, err := b.MarshalJSON()
		if err != nil {
			t.Fatal(err)
		}
		e := factom.Entry{ChainID: &chain, Content: content}
		e = fat103.Sign(e, signer)
		e.Timestamp = time.Now()
		seal := func(e factom.Entry) factom.Entry {
			data, err := e.MarshalBinary()
			if err != nil {
				t.Fatal(err)
			}
			hh := factom.ComputeEntryHash(data)
			e.Hash = &hh
			return e
		}
		first := seal(e)
		// the copy a third party can make: same content, same RCD, signature with its last byte changed
		cp := e
		cp.ExtIDs = make([]factom.Bytes, len(e.ExtIDs))
		for i := range e.ExtIDs {
			cp.ExtIDs[i] = append(factom.Bytes{}, e.ExtIDs[i]...)
		}
		sig := cp.ExtIDs[len(cp.ExtIDs)-1]
		sig[len(sig)-1] ^= 0x01
		second := seal(cp)
		var keymr factom.Bytes32
		apply := func(e factom.Entry, height uint32) {
			eb := &factom.EBlock{ChainID: &chain, KeyMR: &keymr, Height: height, Entries: []factom.Entry{e}}
			if err := d.ApplyTransactionBlock(tx, eb); err != nil {
				t.Fatalf("%s: %v", kind, err)
			}
		}
		apply(first, h)
		afterFirst := vfPending(t, d, tx, from)
		apply(second, h+1)
		afterSecond := vfPending(t, d, tx, from)
		if afterFirst != 5 {
			t.Fatalf("fixture (%s): the signed transfer was not executed (%d left)", kind, afterFirst)
		}
		if afterSecond != afterFirst {
			bad++
			t.Errorf("CONF leaf=ApplyTransactionBlock/NewTransactionBatch clause=a_signed_batch_is_executed_at_most_once (%s): a copy of the entry with the last signature byte altered (entry hash %x instead of %x) validated and debited the signer a second time: balance %d -> %d", kind, (*second.Hash)[:4], (*first.Hash)[:4], afterFirst, afterSecond)
		}
		tx.Rollback()
		done()
	}
	if bad > 0 {
		t.Errorf("CONF-SIG sha=replaykey n=%d", bad)
	}
	t.Logf("CONF-STATS evaluations=2 (key types)")
}
