package node

// BOUNDED check of the liveness-as-safety clause of ApplyTransactionBatchesInHolding that the deductive part does NOT prove (C08):
//
//   ensures envHealthy ==> err == nil     -- with a healthy database no correctly signed batch waiting in holding makes the block fail
//
// (the deductive part proves that the admission step returns only reject codes or storage errors; the WRITE step, recordBatch,
// turns a balance that comes up short into an "uncaught" error that fails the block, and nothing proves that admission excludes it).
//
// Scenarios: batches of 1..3 transactions of one address mixing a conversion into PEG with PEG transfers, at a height of the
// bank-limited era before the V4 fork and at one after it, with PEG balances below / at / above what the transfers spend.

import (
	"context"
	"fmt"
	"strings"
	"testing"
	"time"

	"github.com/Factom-Asset-Tokens/factom"
	"github.com/pegnet/pegnetd/config"
	"github.com/pegnet/pegnetd/fat/fat2"
)

func TestConf_HoldingLiveness(t *testing.T) {
	const unit = uint64(1e8)
	rates := map[fat2.PTicker]uint64{fat2.PTickerUSD: 1 * unit, fat2.PTickerPEG: unit / 2, fat2.PTickerEUR: 2 * unit}
	key, _ := factom.GenerateFsAddress()
	A := key.FAAddress()
	B := confAddr(1)
	conv := func(amount uint64, to fat2.PTicker) fat2.Transaction {
		var tr fat2.Transaction
		tr.Input.Address, tr.Input.Type, tr.Input.Amount = A, fat2.PTickerUSD, amount*unit
		tr.Conversion = to
		return tr
	}
	send := func(amount uint64) fat2.Transaction {
		var tr fat2.Transaction
		tr.Input.Address, tr.Input.Type, tr.Input.Amount = A, fat2.PTickerPEG, amount*unit
		tr.Transfers = []fat2.AddressAmountTuple{{Address: B, Amount: amount * unit}}
		return tr
	}
	type scenario struct {
		name string
		peg  uint64 // PEG held by A before the block
		txs  []fat2.Transaction
	}
	scenarios := []scenario{
		{"conversion into pEUR", 100, []fat2.Transaction{conv(50, fat2.PTickerEUR)}},
		{"conversion into PEG", 100, []fat2.Transaction{conv(50, fat2.PTickerPEG)}},
		{"conversion into PEG and a PEG transfer within the balance", 100, []fat2.Transaction{conv(50, fat2.PTickerPEG), send(80)}},
		{"conversion into PEG and a PEG transfer above balance plus proceeds (rejected)", 100, []fat2.Transaction{conv(50, fat2.PTickerPEG), send(500)}},
		{"conversion into PEG and two PEG transfers within the balance", 200, []fat2.Transaction{conv(50, fat2.PTickerPEG), send(80), send(60)}},
		{"conversion into PEG and two PEG transfers that need the proceeds", 100, []fat2.Transaction{conv(50, fat2.PTickerPEG), send(80), send(60)}},
		{"PEG transfer that needs the proceeds of the conversion into PEG before it", 100, []fat2.Transaction{conv(50, fat2.PTickerPEG), send(150)}},
	}
	heights := []uint32{config.PegnetConversionLimitActivation + 1000, config.V4OPRUpdate + 1000}
	var failures []string
	evals := 0
	for _, h := range heights {
		for _, sc := range scenarios {
			d, done := vfNewNode(t)
			e := vfSignedEntry(t, key, sc.txs, time.Time{})
			batch, err := fat2.NewTransactionBatch(e, int32(h-1))
			if err != nil {
				t.Fatalf("fixture: scenario %q is not a valid batch: %v", sc.name, err)
			}
			tx := confBegin(t, d)
			if _, err := d.Pegnet.AddToBalance(tx, &A, fat2.PTickerPEG, sc.peg*unit); err != nil {
				t.Fatal(err)
			}
			if _, err := d.Pegnet.AddToBalance(tx, &A, fat2.PTickerUSD, 1000*unit); err != nil {
				t.Fatal(err)
			}
			for tk, v := range rates {
				if _, err := tx.Exec(`INSERT INTO pn_rate (height, token, value) VALUES (?, ?, ?)`, h-1, tk.String(), v); err != nil {
					t.Fatal(err)
				}
			}
			if err := d.Pegnet.InsertTransactionHistoryTxBatch(tx, 0, batch, h-1); err != nil {
				t.Fatal(err)
			}
			var keymr factom.Bytes32
			if _, err := d.Pegnet.InsertTransactionBatchHolding(tx, batch, uint64(h-1), &keymr); err != nil {
				t.Fatal(err)
			}
			if err := tx.Commit(); err != nil {
				t.Fatal(err)
			}
			// the block at h, as SyncBlock runs it: bank first, then the held batches
			btx := confBegin(t, d)
			err = d.SyncBank(context.Background(), btx, h)
			if err == nil {
				err = d.ApplyTransactionBatchesInHolding(context.Background(), btx, h, rates)
			}
			btx.Rollback()
			evals++
			if err != nil {
				era := "before V4"
				if h >= config.V4OPRUpdate {
					era = "from V4"
				}
				msg := err.Error()
				if i := strings.Index(msg, "\n"); i > 0 {
					msg = msg[:i]
				}
				failures = append(failures, fmt.Sprintf("%s/%s: %s", era, sc.name, msg))
				if len(failures) == 1 {
					t.Errorf("CONF leaf=ApplyTransactionBatchesInHolding clause=no_held_batch_fails_the_block_on_a_healthy_database height=%d scenario=%q (A holds %d PEG and 1000 pUSD): %v (the block fails on every retry: the chain can never be synced past it)", h, sc.name, sc.peg, err)
				}
			}
			done()
		}
	}
	if len(failures) > 0 {
		t.Errorf("CONF-SIG sha=%s n=%d", confHash(failures), len(failures))
		for _, f := range failures {
			t.Logf("  fails: %s", f)
		}
	}
	t.Logf("CONF-STATS evaluations=%d (height x scenario)", evals)
}
