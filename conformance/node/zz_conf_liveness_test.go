package node

// BOUNDED check of the liveness-as-safety clause of ApplyTransactionBlock that the deductive part does NOT prove (C08):
//
//   ensures envHealthy ==> err == nil     -- with a healthy database no content of the transaction chain makes the block fail
//
// Families of entry blocks built from correctly signed and from malformed entries, including repeated entry hashes inside one
// block and across two blocks (third parties can re-submit any entry they have seen).

import (
	"math/rand"
	"strings"
	"testing"
	"time"

	"github.com/Factom-Asset-Tokens/factom"
	"github.com/pegnet/pegnetd/config"
	"github.com/pegnet/pegnetd/fat/fat2"
)

func TestConf_TransactionBlockLiveness(t *testing.T) {
	r := rand.New(rand.NewSource(41))
	h := uint32(300000)
	chain := config.TransactionChain
	mk := func(entries ...factom.Entry) *factom.EBlock {
		var keymr factom.Bytes32
		keymr[0] = 0xeb
		return &factom.EBlock{ChainID: &chain, KeyMR: &keymr, Height: h, Entries: entries}
	}
	key, _ := factom.GenerateFsAddress()
	transfer := func(amount uint64) factom.Entry {
		var tr fat2.Transaction
		tr.Input.Address = key.FAAddress()
		tr.Input.Type = fat2.PTickerUSD
		tr.Input.Amount = amount
		tr.Transfers = []fat2.AddressAmountTuple{{Address: confAddr(r.Intn(3)), Amount: amount}}
		return vfSignedEntry(t, key, []fat2.Transaction{tr}, time.Time{})
	}
	conversion := func(amount uint64) factom.Entry {
		var tr fat2.Transaction
		tr.Input.Address = key.FAAddress()
		tr.Input.Type = fat2.PTickerUSD
		tr.Input.Amount = amount
		tr.Conversion = fat2.PTickerEUR
		return vfSignedEntry(t, key, []fat2.Transaction{tr}, time.Time{})
	}
	garbage := func() factom.Entry {
		e := factom.Entry{ChainID: &chain, ExtIDs: []factom.Bytes{{1}, {2}}, Content: []byte(`{"version":1,"transactions":[{"input":`)}
		data, _ := e.MarshalBinary()
		hh := factom.ComputeEntryHash(data)
		e.Hash = &hh
		return e
	}
	type scenario struct {
		name   string
		blocks func() [][]factom.Entry
	}
	scenarios := []scenario{
		{"malformed entries", func() [][]factom.Entry { return [][]factom.Entry{{garbage(), garbage()}} }},
		{"funded transfer", func() [][]factom.Entry { return [][]factom.Entry{{transfer(10)}} }},
		{"unfunded transfer (rejected)", func() [][]factom.Entry { return [][]factom.Entry{{transfer(1 << 50)}} }},
		{"conversion put into holding", func() [][]factom.Entry { return [][]factom.Entry{{conversion(10)}} }},
		{"same executed transfer twice in one block", func() [][]factom.Entry { e := transfer(10); return [][]factom.Entry{{e, e}} }},
		{"same executed transfer again in the next block", func() [][]factom.Entry { e := transfer(10); return [][]factom.Entry{{e}, {e}} }},
		{"same rejected transfer twice in one block", func() [][]factom.Entry { e := transfer(1 << 50); return [][]factom.Entry{{e, e}} }},
		{"same rejected transfer again in the next block", func() [][]factom.Entry { e := transfer(1 << 50); return [][]factom.Entry{{e}, {e}} }},
		{"same held conversion twice in one block", func() [][]factom.Entry { e := conversion(10); return [][]factom.Entry{{e, e}} }},
		{"same held conversion again in the next block", func() [][]factom.Entry { e := conversion(10); return [][]factom.Entry{{e}, {e}} }},
	}
	var failures []string
	for _, sc := range scenarios {
		d, done := vfNewNode(t)
		tx := confBegin(t, d)
		a := key.FAAddress()
		if _, err := d.Pegnet.AddToBalance(tx, &a, fat2.PTickerUSD, 1000); err != nil {
			t.Fatal(err)
		}
		for bi, entries := range sc.blocks() {
			eb := mk(entries...)
			eb.Height = h + uint32(bi)
			if err := d.ApplyTransactionBlock(tx, eb); err != nil {
				msg := err.Error()
				if i := strings.Index(msg, ":"); i > 0 && strings.Contains(msg, "UNIQUE") {
					msg = "UNIQUE constraint failed"
				}
				failures = append(failures, sc.name+": "+msg)
				if len(failures) == 1 {
					t.Errorf("CONF leaf=ApplyTransactionBlock clause=no_chain_content_fails_the_block_on_a_healthy_database scenario=%q block=%d: %v (the block fails on every retry: the chain can never be synced past it)", sc.name, bi+1, err)
				}
				break
			}
		}
		tx.Rollback()
		done()
	}
	if len(failures) > 0 {
		t.Errorf("CONF-SIG sha=%s n=%d", confHash(failures), len(failures))
		for _, f := range failures {
			t.Logf("  fails: %s", f)
		}
	}
	t.Logf("CONF-STATS evaluations=%d (scenarios)", len(scenarios))
}
