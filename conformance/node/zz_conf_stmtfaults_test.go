package node

// BOUNDED check of one clause shared by the WRITING SQL leaves of the block path, which the contracts assume (C10, and C14 for
// the snapshot rotation): a statement that fails is REPORTED -- the leaf may not return nil after one of its statements failed
// (SyncBlock would then commit a block computed from a half-written table instead of rolling it back and retrying).
//
//   ensures result == nil ==> every statement of the leaf was executed successfully
//
// The fault-injecting driver fails the k-th statement the leaf issues, for every k up to the number of statements of the call,
// for each leaf and fixture below.  Bounds: one fixture per leaf (two for InsertRates and SubFromBalance), every statement index.

import (
	"database/sql"
	"testing"
	"time"

	"github.com/Factom-Asset-Tokens/factom"
	"github.com/pegnet/pegnet/modules/opr"
	"github.com/pegnet/pegnetd/config"
	"github.com/pegnet/pegnetd/fat/fat2"
	"github.com/pegnet/pegnetd/node/pegnet"
)

type sqlTxT = sql.Tx

type confStmtLeaf struct {
	name string
	call func(tx *sqlTxT) error
}

func confStmtFaults(t *testing.T, snapshotOnly bool) {
	d, done := vfNewNode(t)
	defer done()
	// fixture: balances for three addresses, one snapshot, a bank row, a batch with history and holding rows
	rnd := newConfRand(33)
	batch := confBatch(t, rnd, 2)
	var keymr factom.Bytes32
	{
		tx := confBegin(t, d)
		for i := 0; i < 3; i++ {
			a := confAddr(i)
			if _, err := d.Pegnet.AddToBalance(tx, &a, fat2.PTickerUSD, uint64(1000+i)); err != nil {
				t.Fatal(err)
			}
			if _, err := d.Pegnet.AddToBalance(tx, &a, fat2.PTickerPEG, uint64(50+i)); err != nil {
				t.Fatal(err)
			}
		}
		if err := d.Pegnet.SnapshotCurrent(tx); err != nil {
			t.Fatal(err)
		}
		if err := d.Pegnet.InsertBankAmount(tx, 7, 5000); err != nil {
			t.Fatal(err)
		}
		if err := d.Pegnet.InsertTransactionHistoryTxBatch(tx, 0, batch, 300000); err != nil {
			t.Fatal(err)
		}
		if err := tx.Commit(); err != nil {
			t.Fatal(err)
		}
	}
	a0, a1 := confAddr(0), confAddr(1)
	rates := func() []opr.AssetUint {
		var list []opr.AssetUint
		for _, n := range []string{"PEG", "USD", "EUR", "FCT"} {
			list = append(list, opr.AssetUint{Name: n, Value: 7})
		}
		return list
	}
	ts := time.Unix(1600000000, 0)
	other := confBatch(t, rnd, 1)
	leaves := []confStmtLeaf{
		{"SnapshotCurrent", func(tx *sqlTxT) error { return d.Pegnet.SnapshotCurrent(tx) }},
	}
	if !snapshotOnly {
		leaves = []confStmtLeaf{
			{"AddToBalance", func(tx *sqlTxT) error { _, err := d.Pegnet.AddToBalance(tx, &a0, fat2.PTickerUSD, 5); return err }},
			{"AddToBalance(new address)", func(tx *sqlTxT) error {
				n := confAddr(9)
				_, err := d.Pegnet.AddToBalance(tx, &n, fat2.PTickerUSD, 5)
				return err
			}},
			{"SubFromBalance", func(tx *sqlTxT) error {
				_, txErr, err := d.Pegnet.SubFromBalance(tx, &a0, fat2.PTickerUSD, 1)
				if err == nil && txErr != nil {
					return txErr
				}
				return err
			}},
			{"InsertRates(floating)", func(tx *sqlTxT) error { return d.Pegnet.InsertRates(tx, 11, rates(), pegnet.PEGPriceIsFloating) }},
			{"InsertRates(equation)", func(tx *sqlTxT) error { return d.Pegnet.InsertRates(tx, 12, rates(), pegnet.PEGPriceIsEquation) }},
			{"InsertBankAmount", func(tx *sqlTxT) error { return d.Pegnet.InsertBankAmount(tx, 8, 5000) }},
			{"UpdateBankEntry", func(tx *sqlTxT) error { return d.Pegnet.UpdateBankEntry(tx, 7, 100, 200) }},
			{"InsertSynced", func(tx *sqlTxT) error { return d.Pegnet.InsertSynced(tx, &pegnet.BlockSync{Synced: 5}) }},
			{"MarkHeightSynced", func(tx *sqlTxT) error { return d.Pegnet.MarkHeightSynced(tx, 6) }},
			{"InsertTransactionBatchHolding", func(tx *sqlTxT) error {
				_, err := d.Pegnet.InsertTransactionBatchHolding(tx, other, 300001, &keymr)
				return err
			}},
			{"InsertTransactionHistoryTxBatch", func(tx *sqlTxT) error { return d.Pegnet.InsertTransactionHistoryTxBatch(tx, 1, other, 300001) }},
			{"SetTransactionHistoryExecuted", func(tx *sqlTxT) error { return d.Pegnet.SetTransactionHistoryExecuted(tx, batch, 300001) }},
			{"SetTransactionHistoryConvertedAmount", func(tx *sqlTxT) error { return d.Pegnet.SetTransactionHistoryConvertedAmount(tx, batch, 0, 42) }},
			{"SetTransactionHistoryPEGConvertedRequestAmount", func(tx *sqlTxT) error {
				return d.Pegnet.SetTransactionHistoryPEGConvertedRequestAmount(tx, batch, 0, 42, 7)
			}},
			{"InsertTransactionRelation", func(tx *sqlTxT) error {
				_, err := d.Pegnet.InsertTransactionRelation(tx, a1, batch.Entry.Hash, 0, true, false)
				return err
			}},
			{"InsertGradeBlock", func(tx *sqlTxT) error {
				chain := config.OPRChain
				var keymr, prev factom.Bytes32
				keymr[0] = 0x77
				eb := &factom.EBlock{ChainID: &chain, KeyMR: &keymr, PrevKeyMR: &prev, Height: 300500, Sequence: 9}
				return d.Pegnet.InsertGradeBlock(tx, eb, confGraded{short: []string{"aa", "bb"}})
			}},
			{"InsertFCTBurn", func(tx *sqlTxT) error {
				var burn factom.FactoidTransaction
				var id factom.Bytes32
				id[0] = 0x5b
				burn.TransactionID = &id
				burn.FactoidTransactionHeader.TimestampSalt = ts
				burn.FCTInputs = []factom.FactoidTransactionIO{{Address: factom.Bytes32(a0), Amount: 12}}
				return d.Pegnet.InsertFCTBurn(tx, &id, burn, 300600)
			}},
			{"InsertStakingCoinbase", func(tx *sqlTxT) error {
				txid := "0000000000000000000000000000000000000000000000000000000000300096"
				return d.Pegnet.InsertStakingCoinbase(tx, txid, 300096, ts, map[string]uint64{"0-" + txid: 5, "1-" + txid: 6},
					map[string]factom.FAAddress{"0-" + txid: a0, "1-" + txid: a1})
			}},
			{"InsertDeveloperRewardCoinbase", func(tx *sqlTxT) error {
				txid := "0000000000000000000000000000000000000000000000000000000000300240"
				return d.Pegnet.InsertDeveloperRewardCoinbase(tx, txid, "0-"+txid, 300240, ts, 9, a0)
			}},
		}
	}
	evals := 0
	for _, lf := range leaves {
		// healthy call first: counts the statements and shows that the fixture is accepted
		tx := confBegin(t, d)
		vfSetFault("", 1<<30) // counts, never fires
		err := lf.call(tx)
		vfFault.mu.Lock()
		stmts := vfFault.seen
		vfFault.mu.Unlock()
		vfSetFault("", 0)
		tx.Rollback()
		if err != nil {
			t.Fatalf("fixture: %s fails without any fault: %v", lf.name, err)
		}
		if stmts == 0 {
			t.Fatalf("fixture: %s issues no statement", lf.name)
		}
		for k := 1; k <= stmts; k++ {
			tx := confBegin(t, d)
			vfSetFault("", k)
			err := lf.call(tx)
			fired := vfFaultFired()
			vfSetFault("", 0)
			tx.Rollback()
			evals++
			if fired == 0 {
				continue // an earlier statement took another path this time
			}
			if err == nil {
				t.Errorf("CONF leaf=%s clause=a_failed_statement_is_reported: statement %d of %d failed and the leaf returned nil", lf.name, k, stmts)
			}
		}
	}
	t.Logf("CONF-STATS evaluations=%d (leaf x faulted statement)", evals)
}

// the snapshot rotation (C14: a snapshot that silently lost its rows pays no holder at this and at the next snapshot height)
func TestConf_StatementFaults_Snapshot(t *testing.T) { confStmtFaults(t, true) }

// the other writing leaves of the block path (C10)
func TestConf_StatementFaults_Leaves(t *testing.T) { confStmtFaults(t, false) }
