package node

// BOUNDED stand-in for the pair InsertGradeBlock / SelectPreviousWinners that the grading glue assumes (C11, C08): what a
// graded block records as its winners' short hashes is what the next graded height is graded against -- the short hashes of
// the LATEST recorded block strictly below the asked height, whatever heights lie in between without a graded block.
// The grader's result is a stand-in value implementing grader.GradedBlock without winners (the pn_winners rows need real
// graded records and are not exercised).  Bounds: confTrials seeded histories of up to 5 graded heights in 2..12, every
// asked height 1..14.

import (
	"context"
	"fmt"
	"math/rand"
	"reflect"
	"testing"

	"github.com/Factom-Asset-Tokens/factom"
	"github.com/pegnet/pegnetd/config"
)

func TestConf_GradeBlockRoundTrip(t *testing.T) {
	r := rand.New(rand.NewSource(61))
	d, done := vfNewNode(t)
	defer done()
	chain := config.OPRChain
	for trial := 0; trial < confTrials; trial++ {
		if _, err := d.Pegnet.DB.Exec(`DELETE FROM pn_grade`); err != nil {
			t.Fatal(err)
		}
		model := map[uint32][]string{}
		tx := confBegin(t, d)
		for k := 0; k < 5; k++ {
			h := uint32(2 + r.Intn(11))
			var short []string
			for i := 0; i < 1+r.Intn(3); i++ {
				short = append(short, fmt.Sprintf("%04x%04x%04x", trial, h, i))
			}
			var keymr, prev factom.Bytes32
			keymr[0], keymr[1], keymr[2] = byte(h), byte(trial), byte(trial>>8)
			eb := &factom.EBlock{ChainID: &chain, KeyMR: &keymr, PrevKeyMR: &prev, Height: h, Sequence: h}
			err := d.Pegnet.InsertGradeBlock(tx, eb, confGraded{short: short})
			if model[h] != nil {
				if err == nil {
					t.Fatalf("CONF leaf=InsertGradeBlock clause=a_height_is_graded_once: height %d recorded twice", h)
				}
				continue
			}
			if err != nil {
				t.Fatalf("CONF leaf=InsertGradeBlock clause=healthy_and_ungraded_means_nil: %v", err)
			}
			model[h] = short
		}
		if err := tx.Commit(); err != nil {
			t.Fatal(err)
		}
		for ask := uint32(1); ask <= 14; ask++ {
			var want []string
			best := uint32(0)
			for h, s := range model {
				if h < ask && h > best {
					best, want = h, s
				}
			}
			got, err := d.Pegnet.SelectPreviousWinners(context.Background(), ask)
			if best == 0 {
				if err == nil && len(got) > 0 {
					t.Fatalf("CONF leaf=SelectPreviousWinners clause=no_graded_block_below_means_no_previous_winners height=%d: %v", ask, got)
				}
				continue
			}
			if err != nil || !reflect.DeepEqual(got, want) {
				t.Fatalf("CONF leaf=InsertGradeBlock/SelectPreviousWinners clause=previous_winners_are_those_recorded_for_the_latest_graded_height_below trial=%d height=%d (latest graded below: %d): got %v (%v), recorded %v", trial, ask, best, got, err, want)
			}
		}
	}
	d.Pegnet.DB.Exec(`DELETE FROM pn_grade`)
	t.Logf("CONF-STATS evaluations=%d (seeded histories x 14 asked heights)", confTrials)
}
