package node

// BOUNDED stand-in for the assumed contract of (*Pegnetd).recordPegnetRequests (PEG conversion limit, C16 C04):
//
//   for every PEG request (index j of batch b) with pegAmt = Convert(h, amount, rates/avgs of input type -> PEG):
//     the requests share the bank through ConversionSupplySet.Payouts (verified), and the INPUT address of the request is
//     credited exactly  yield  PEG  and  Refund(h, amount, yield, rate_in, rate_PEG)  of the input type -- also when the yield is 0;
//     nothing else changes in the balance table; with bankHeight >= V4OPRUpdate the bank row records total paid / requested.
//
// The oracle recomputes the expected balance table with the verified pure functions (Convert, NewConversionSupply/
// AddConversion/Payouts, Refund) and compares the whole pn_addresses table.
// Bounds: 60 seeded trials, 1..3 batches of 1..3 PEG requests, 3 input assets, amounts from a fixed table (including
// amounts whose proportional share rounds down to 0), banks {0, 1, 7, 5e11, 1e15}.

import (
	"crypto/sha256"
	"fmt"
	"math/rand"
	"strings"
	"testing"
	"time"

	"github.com/Factom-Asset-Tokens/factom"
	"github.com/pegnet/pegnet/modules/transactionid"
	"github.com/pegnet/pegnetd/config"
	"github.com/pegnet/pegnetd/fat/fat2"
	"github.com/pegnet/pegnetd/node/conversions"
)

func confPegRequests(t *testing.T, mixed bool) {
	r := rand.New(rand.NewSource(7))
	d, done := vfNewNode(t)
	defer done()
	h := config.PegnetConversionLimitActivation + 10
	rates := map[fat2.PTicker]uint64{fat2.PTickerXBT: 900000000000, fat2.PTickerPEG: 250000, fat2.PTickerUSD: 100000000, fat2.PTickerEUR: 110000000, fat2.PTickerFCT: 300000000}
	avgs := map[fat2.PTicker]uint64{fat2.PTickerXBT: 900000000000, fat2.PTickerPEG: 250000, fat2.PTickerUSD: 100000000, fat2.PTickerEUR: 110000000, fat2.PTickerFCT: 300000000}
	inTypes := []fat2.PTicker{fat2.PTickerUSD, fat2.PTickerEUR, fat2.PTickerFCT}
	amounts := []uint64{1, 3, 1000, 100000000, 5000000000, 123456789012}
	banks := []uint64{0, 1, 7, 500000000000, 1000000000000000}
	var failures []string
	for trial := 0; trial < confTrials; trial++ {
		tx := confBegin(t, d)
		var batches []*fat2.TransactionBatch
		type req struct {
			addr   factom.FAAddress
			in     fat2.PTicker
			amount uint64
			txid   string
		}
		var reqs []req
		nb := 1 + r.Intn(3)
		for b := 0; b < nb; b++ {
			key, _ := factom.GenerateFsAddress()
			var txs []fat2.Transaction
			ntx := 1 + r.Intn(3)
			if mixed {
				ntx++
			}
			for j := 0; j < ntx; j++ {
				var tr fat2.Transaction
				tr.Input.Address = key.FAAddress()
				tr.Input.Type = inTypes[r.Intn(len(inTypes))]
				tr.Input.Amount = amounts[r.Intn(len(amounts))]
				tr.Conversion = fat2.PTickerPEG
				if mixed && j == 0 {
					tr.Conversion = fat2.PTickerXBT // an ordinary conversion travelling in the same batch: already settled by recordBatch
				}
				txs = append(txs, tr)
			}
			e := vfSignedEntry(t, key, txs, time.Time{})
			batch, err := fat2.NewTransactionBatch(e, int32(h))
			if err != nil {
				t.Fatal(err)
			}
			batches = append(batches, batch)
			for j, tr := range batch.Transactions {
				if !tr.IsPEGRequest() {
					continue // only PEG requests are paid from the bank
				}
				reqs = append(reqs, req{tr.Input.Address, tr.Input.Type, tr.Input.Amount, transactionid.FormatTxID(j, batch.Entry.Hash.String())})
			}
		}
		bank := banks[r.Intn(len(banks))]
		// oracle
		set := conversions.NewConversionSupply(bank)
		for _, q := range reqs {
			pegAmt, err := conversions.Convert(h, int64(q.amount), rates[q.in], avgs[q.in], rates[fat2.PTickerPEG], avgs[fat2.PTickerPEG])
			if err != nil {
				t.Fatal(err)
			}
			if err := set.AddConversion(q.txid, uint64(pegAmt)); err != nil {
				t.Fatal(err)
			}
		}
		pay := set.Payouts()
		want := confReadBalTable(t, tx, "pn_addresses")
		for _, q := range reqs {
			y := pay[q.txid]
			refund := conversions.Refund(h, int64(q.amount), int64(y), rates[q.in], rates[fat2.PTickerPEG])
			if want[q.addr] == nil {
				want[q.addr] = make([]uint64, int(fat2.PTickerMax)+1)
			}
			want[q.addr][fat2.PTickerPEG] += y
			want[q.addr][q.in] += uint64(refund)
		}
		if err := d.recordPegnetRequests(tx, batches, rates, avgs, h, bank, int32(config.V4OPRUpdate)-1); err != nil {
			t.Fatalf("CONF leaf=recordPegnetRequests clause=healthy_means_nil: %v", err)
		}
		got := confReadBalTable(t, tx, "pn_addresses")
		if m := confEqualTables(want, got); m != "" {
			if !mixed {
				t.Fatalf("CONF leaf=recordPegnetRequests clause=each_request_credited_yield_PEG_and_refund_of_input_type trial=%d bank=%d requests=%d: %s", trial, bank, len(reqs), m)
			}
			if len(failures) == 0 {
				t.Errorf("CONF leaf=recordPegnetRequests clause=only_PEG_requests_are_paid_from_the_bank trial=%d bank=%d PEG requests=%d (each batch also carries one pXXX->pXBT conversion): %s", trial, bank, len(reqs), m)
			}
			failures = append(failures, fmt.Sprintf("%d/%d", trial, bank)) // keys are random: the signature names the failing trials only
		}
		tx.Rollback()
	}
	if len(failures) > 0 {
		sum := sha256.Sum256([]byte(strings.Join(failures, "\n")))
		t.Errorf("CONF-SIG sha=%x n=%d", sum[:8], len(failures))
	}
	t.Logf("CONF-STATS evaluations=%d (seeded trials)", confTrials)
}

// batches made of PEG requests only: must hold
func TestConf_RecordPegnetRequests(t *testing.T) { confPegRequests(t, false) }

// batches that also carry an ordinary conversion
func TestConf_RecordPegnetRequests_MixedBatches(t *testing.T) { confPegRequests(t, true) }
