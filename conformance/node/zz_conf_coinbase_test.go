package node

// BOUNDED check of the payout-record leaves (InsertStakingCoinbase, InsertDeveloperRewardCoinbase; assumed `pure` with respect
// to the balance ledger by the proofs) through the verified callers: after SnapshotPayouts / DevelopersPayouts the coinbase
// history rows written for the block agree with the ledger -- per address, the PEG amounts recorded equal the PEG credited,
// every credited address has a record and is indexed in the lookup table (C17, payout records of C14/C15).

import (
	"encoding/hex"
	"fmt"
	"math/rand"
	"testing"
	"time"

	"github.com/Factom-Asset-Tokens/factom"
	"github.com/pegnet/pegnetd/config"
	"github.com/pegnet/pegnetd/fat/fat2"
	"github.com/pegnet/pegnetd/node/pegnet"
	log "github.com/sirupsen/logrus"
)

func confCoinbaseCheck(t *testing.T, d *Pegnetd, what string, height uint32, before, after confBalTable) {
	// PEG deltas
	delta := map[factom.FAAddress]uint64{}
	for a, row := range after {
		old := uint64(0)
		if before[a] != nil {
			old = before[a][fat2.PTickerPEG]
		}
		if row[fat2.PTickerPEG] != old {
			delta[a] = row[fat2.PTickerPEG] - old
		}
		for tk := fat2.PTickerInvalid + 1; tk < fat2.PTickerMax; tk++ {
			if tk != fat2.PTickerPEG && (before[a] == nil && row[tk] != 0 || before[a] != nil && before[a][tk] != row[tk]) {
				t.Fatalf("CONF leaf=%s clause=only_PEG_is_credited: %s changed", what, tk)
			}
		}
	}
	rows, err := d.Pegnet.DB.Query(`SELECT tx.from_address, tx.to_asset, tx.to_amount, tx.entry_hash, tx.tx_index FROM pn_history_transaction tx, pn_history_txbatch b
		WHERE b.entry_hash = tx.entry_hash AND b.height = ? AND tx.action_type = ?`, height, pegnet.Coinbase)
	if err != nil {
		t.Fatal(err)
	}
	rec := map[factom.FAAddress]uint64{}
	type ref struct {
		hash []byte
		idx  int
		a    factom.FAAddress
	}
	var refs []ref
	for rows.Next() {
		var ab, hash []byte
		var asset string
		var amt uint64
		var idx int
		if err := rows.Scan(&ab, &asset, &amt, &hash, &idx); err != nil {
			t.Fatal(err)
		}
		var a factom.FAAddress
		copy(a[:], ab)
		if asset != "PEG" {
			t.Fatalf("CONF leaf=%s clause=coinbase_records_are_PEG: %s", what, asset)
		}
		rec[a] += amt
		refs = append(refs, ref{hash, idx, a})
	}
	rows.Close()
	for a, v := range delta {
		if rec[a] != v {
			t.Fatalf("CONF leaf=%s clause=recorded_payout_equals_credited_amount: address %x credited %d PEG, history records %d", what, a[:4], v, rec[a])
		}
	}
	for a, v := range rec {
		if delta[a] != v {
			t.Fatalf("CONF leaf=%s clause=every_record_corresponds_to_a_credit: address %x has %d PEG recorded, %d credited", what, a[:4], v, delta[a])
		}
	}
	for _, r := range refs {
		var c int
		d.Pegnet.DB.QueryRow(`SELECT COUNT(*) FROM pn_history_lookup WHERE entry_hash = ? AND tx_index = ? AND address = ?`, r.hash, r.idx, r.a[:]).Scan(&c)
		if c != 1 {
			t.Fatalf("CONF leaf=%s clause=every_payee_is_indexed_for_address_queries: %d lookup rows", what, c)
		}
	}
}

func TestConf_CoinbaseHistoryMatchesLedger(t *testing.T) {
	log.SetLevel(log.ErrorLevel)
	r := rand.New(rand.NewSource(31))
	fl := log.NewEntry(log.New())
	trials := confTrials / 6
	for trial := 0; trial < trials; trial++ {
		d, done := vfNewNode(t)
		// --- developers' payout
		h := config.V202EnhanceActivation + 144 - config.V202EnhanceActivation%144
		if trial%2 == 1 {
			h = config.V20DevRewardsHeightActivation + 144 - config.V20DevRewardsHeightActivation%144
		}
		tx := confBegin(t, d)
		before := confReadBalTable(t, tx, "pn_addresses")
		if err := d.DevelopersPayouts(tx, fl, h, time.Unix(1600000000, 0), DeveloperRewardAddreses); err != nil {
			t.Fatalf("DevelopersPayouts: %v", err)
		}
		after := confReadBalTable(t, tx, "pn_addresses")
		if err := tx.Commit(); err != nil {
			t.Fatal(err)
		}
		confCoinbaseCheck(t, d, "InsertDeveloperRewardCoinbase (via DevelopersPayouts)", h, before, after)
		// --- holders' staking payout on another height
		tx = confBegin(t, d)
		n := 2 + r.Intn(6)
		for i := 0; i < n; i++ {
			a := confAddr(i)
			amt := []uint64{1, 5e8, 7e12, 7e12, 3e15}[r.Intn(5)]
			if _, err := d.Pegnet.AddToBalance(tx, &a, fat2.PTickerUSD, amt); err != nil {
				t.Fatal(err)
			}
		}
		d.Pegnet.SnapshotCurrent(tx)
		h2 := h + 144
		before = confReadBalTable(t, tx, "pn_addresses")
		rates := map[fat2.PTicker]uint64{fat2.PTickerUSD: 100000000, fat2.PTickerPEG: 1000000}
		if err := d.SnapshotPayouts(tx, fl, rates, h2, time.Unix(1600000600, 0)); err != nil {
			t.Fatalf("SnapshotPayouts: %v", err)
		}
		after = confReadBalTable(t, tx, "pn_addresses")
		if err := tx.Commit(); err != nil {
			t.Fatal(err)
		}
		confCoinbaseCheck(t, d, "InsertStakingCoinbase (via SnapshotPayouts)", h2, before, after)
		done()
	}
	t.Logf("CONF-STATS evaluations=%d (seeded trials, two payout kinds each)", trials)
}

// The staking payout records are a function of the payout set: the record of payout "<rank>-<txid>" is stored under tx_index
// <rank>, for the address and the amount of that payout -- whatever order the payout map is walked in (C01; C17 reads by index).
// Bounds: 2..12 payouts, distinct amounts, confTrials/3 seeded trials, each on a fresh history.
func TestConf_StakingCoinbaseRecordIndex(t *testing.T) {
	r := rand.New(rand.NewSource(32))
	d, done := vfNewNode(t)
	defer done()
	trials := confTrials / 3
	for trial := 0; trial < trials; trial++ {
		tx := confBegin(t, d)
		n := 2 + r.Intn(11)
		txid := fmt.Sprintf("%064d", 300000+trial)
		payouts := map[string]uint64{}
		addrs := map[string]factom.FAAddress{}
		for i := 0; i < n; i++ {
			k := fmt.Sprintf("%d-%s", i, txid)
			payouts[k] = uint64(1000 + 17*i + r.Intn(7))
			var a factom.FAAddress
			a[0], a[1], a[2] = 0xc1, byte(trial), byte(i)
			addrs[k] = a
		}
		if err := d.Pegnet.InsertStakingCoinbase(tx, txid, uint32(300000+trial), time.Unix(1600000000, 0), payouts, addrs); err != nil {
			t.Fatalf("CONF leaf=InsertStakingCoinbase clause=healthy_means_nil: %v", err)
		}
		hash, _ := hex.DecodeString(txid)
		rows, err := tx.Query(`SELECT tx_index, from_address, to_amount FROM pn_history_transaction WHERE entry_hash = ?`, hash)
		if err != nil {
			t.Fatal(err)
		}
		seen := 0
		for rows.Next() {
			var idx int
			var ab []byte
			var amt uint64
			if err := rows.Scan(&idx, &ab, &amt); err != nil {
				t.Fatal(err)
			}
			seen++
			k := fmt.Sprintf("%d-%s", idx, txid)
			want, ok := addrs[k]
			if !ok || string(ab) != string(want[:]) || amt != payouts[k] {
				rows.Close()
				t.Fatalf("CONF leaf=InsertStakingCoinbase clause=record_of_payout_rank_k_is_stored_under_tx_index_k trial=%d payouts=%d: tx_index %d holds address %x amount %d, payout %q is address %x amount %d", trial, n, idx, ab[:3], amt, k, want[:3], payouts[k])
			}
		}
		rows.Close()
		if seen != n {
			t.Fatalf("CONF leaf=InsertStakingCoinbase clause=one_record_per_payout: %d records for %d payouts", seen, n)
		}
		tx.Rollback()
	}
	t.Logf("CONF-STATS evaluations=%d (seeded trials)", trials)
}
