package node

// BOUNDED check of one clause shared by the query leaves that iterate a result set (C10): a fault while stepping through the
// rows must be REPORTED -- the leaf may not return a truncated result with a nil error (the callers would then commit a block
// computed from partial data).
//
//   ensures err == nil ==> result is the complete result set
//
// The fault-injecting driver fails the Next() that would deliver row k, for every k, for each leaf on the block path.
// (Queries are recognised by the table they read, not by their exact text: re-formatting the SQL must not matter.)

import (
	"context"
	"testing"

	"github.com/Factom-Asset-Tokens/factom"
	"github.com/pegnet/pegnet/modules/opr"
	"github.com/pegnet/pegnetd/fat/fat2"
	"github.com/pegnet/pegnetd/node/pegnet"
)

func TestConf_RowIterationFaults(t *testing.T) {
	d, done := vfNewNode(t)
	defer done()
	// ---- fixture: 3 holders in both snapshots, rates at height 5 (4 assets), 3 batches held at height 300000
	tx := confBegin(t, d)
	for i := 0; i < 3; i++ {
		a := confAddr(i)
		if _, err := d.Pegnet.AddToBalance(tx, &a, fat2.PTickerUSD, uint64(100+i)); err != nil {
			t.Fatal(err)
		}
	}
	d.Pegnet.SnapshotCurrent(tx)
	d.Pegnet.SnapshotCurrent(tx)
	var list []opr.AssetUint
	for _, n := range []string{"PEG", "USD", "EUR", "FCT"} {
		list = append(list, opr.AssetUint{Name: n, Value: 7})
	}
	if err := d.Pegnet.InsertRates(tx, 5, list, pegnet.PEGPriceIsFloating); err != nil {
		t.Fatal(err)
	}
	rnd := newConfRand(21)
	var keymr factom.Bytes32
	for i := 0; i < 3; i++ {
		b := confBatch(t, rnd, 1)
		if _, err := d.Pegnet.InsertTransactionBatchHolding(tx, b, 300000, &keymr); err != nil {
			t.Fatal(err)
		}
	}
	if err := tx.Commit(); err != nil {
		t.Fatal(err)
	}
	type leaf struct {
		name, pattern string
		rows          int
		call          func() (int, error) // number of items returned, error
	}
	leaves := []leaf{
		{"SelectSnapshotBalances", "snapshot_past", 3, func() (int, error) {
			tx := confBegin(t, d)
			defer tx.Rollback()
			r, err := d.Pegnet.SelectSnapshotBalances(tx)
			return len(r), err
		}},
		{"SelectPendingRates", "pn_rate", 4, func() (int, error) {
			tx := confBegin(t, d)
			defer tx.Rollback()
			r, err := d.Pegnet.SelectPendingRates(context.Background(), tx, 5)
			return len(r), err
		}},
		{"SelectRates", "pn_rate", 4, func() (int, error) {
			r, err := d.Pegnet.SelectRates(context.Background(), 5)
			return len(r), err
		}},
		{"SelectMostRecentRatesBeforeHeight", "pn_rate", 4, func() (int, error) {
			tx := confBegin(t, d)
			defer tx.Rollback()
			r, _, err := d.Pegnet.SelectMostRecentRatesBeforeHeight(context.Background(), tx, 9)
			return len(r), err
		}},
		{"SelectTransactionBatchesInHoldingAtHeight", "pn_transaction_batch_holding", 3, func() (int, error) {
			r, err := d.Pegnet.SelectTransactionBatchesInHoldingAtHeight(300000)
			return len(r), err
		}},
	}
	evals := 0
	for _, lf := range leaves {
		n, err := lf.call()
		if err != nil || n != lf.rows {
			t.Fatalf("fixture: %s returns %d items (%v), want %d", lf.name, n, err, lf.rows)
		}
		for k := 1; k <= lf.rows+1; k++ { // +1: the Next() that would report the end of the set
			vfSetRowFault(lf.pattern, k)
			n, err := lf.call()
			fired := vfRowFaultFired()
			vfSetRowFault("", 0)
			evals++
			if fired == 0 {
				t.Fatalf("fixture: the row fault for %s did not fire", lf.name)
			}
			if err == nil {
				t.Errorf("CONF leaf=%s clause=a_fault_while_stepping_through_the_rows_is_reported: the Next() for row %d of %d failed, the leaf returned %d items and a nil error", lf.name, k, lf.rows, n)
			}
		}
	}
	t.Logf("CONF-STATS evaluations=%d (leaf x faulted row)", evals)
}

// IsIncludedTopPEGAddress has no error result: a failing query or row step is answered "not a top-100 holder", and GradeS then
// silently leaves the SPR of an eligible staker out of the grading of the block (F14b).
func TestConf_Top100QueryFaults(t *testing.T) {
	d, done := vfNewNode(t)
	defer done()
	tx := confBegin(t, d)
	a := confAddr(1)
	if _, err := d.Pegnet.AddToBalance(tx, &a, fat2.PTickerPEG, 1000); err != nil {
		t.Fatal(err)
	}
	if err := tx.Commit(); err != nil {
		t.Fatal(err)
	}
	if !d.Pegnet.IsIncludedTopPEGAddress(a[:]) {
		t.Fatal("fixture: the only PEG holder is not in the top 100")
	}
	bad := 0
	vfSetFault("peg_balance", 1)
	in := d.Pegnet.IsIncludedTopPEGAddress(a[:])
	f1 := vfFaultFired()
	vfSetFault("", 0)
	if f1 == 1 && !in {
		bad++
		t.Errorf("CONF leaf=IsIncludedTopPEGAddress clause=a_failed_query_is_reported: the query failed and the only PEG holder was answered 'not in the top 100' with no way to report the failure")
	}
	vfSetRowFault("peg_balance", 1)
	in = d.Pegnet.IsIncludedTopPEGAddress(a[:])
	f2 := vfRowFaultFired()
	vfSetRowFault("", 0)
	if f2 == 1 && !in {
		bad++
		t.Errorf("CONF leaf=IsIncludedTopPEGAddress clause=a_fault_while_stepping_through_the_rows_is_reported: stepping failed and the only PEG holder was answered 'not in the top 100'")
	}
	if bad > 0 {
		t.Errorf("CONF-SIG sha=top100faults n=%d", bad)
	}
	t.Logf("CONF-STATS evaluations=2 (statement fault, row fault)")
}
