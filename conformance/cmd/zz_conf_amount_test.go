package cmd

// Counterexample search for the proved FactoidToFactoshi (C20: human-readable amounts are converted to base units exactly or
// rejected, never silently altered).  A grammar of decimal strings; oracle with math/big.

import (
	"math/big"
	"strings"
	"testing"
)

func TestConf_FactoidToFactoshiAgainstContract(t *testing.T) {
	wholes := []string{"", "0", "1", "7", "10", "000", "0012", "184467440737", "184467440738", "99999999999", "18446744073709551615", "18446744073709551616", "99999999999999999999"}
	fracs := []string{"", ".", ".0", ".5", ".05", ".00000001", ".10000000", ".09551615", ".09551616", ".99999999", ".000000001", ".100000000", ".0000000010", ".123456789", ".00000000", ".000000000"}
	evals := 0
	max := new(big.Int).SetUint64(^uint64(0))
	for _, w := range wholes {
		for _, f := range fracs {
			s := w + f
			evals++
			got, err := FactoidToFactoshi(s)
			// oracle: [0-9]* ( '.' [0-9]+ )? ; more than 8 decimals rejected; exact value whole*1e8 + frac*10^(8-len) must fit uint64
			wellFormed := s != "." && (f == "" || len(f) >= 2)
			if s == "" {
				wellFormed = true // the empty string is read as 0 by the implementation's grammar (both groups optional)
			}
			digits := strings.TrimPrefix(f, ".")
			if !wellFormed || len(digits) > 8 {
				if err == nil {
					t.Fatalf("CONF leaf=FactoidToFactoshi clause=rejected_unless_well_formed_with_at_most_8_decimals: %q accepted as %d", s, got)
				}
				continue
			}
			val := new(big.Int)
			if w != "" {
				val.SetString(w, 10)
			}
			val.Mul(val, big.NewInt(100000000))
			if digits != "" {
				fv, _ := new(big.Int).SetString(digits, 10)
				for k := len(digits); k < 8; k++ {
					fv.Mul(fv, big.NewInt(10))
				}
				val.Add(val, fv)
			}
			if val.Cmp(max) > 0 {
				if err == nil {
					t.Fatalf("CONF leaf=FactoidToFactoshi clause=never_silently_altered: %q does not fit 64 bits (exact value %s) but was accepted as %d", s, val, got)
				}
				continue
			}
			if err != nil {
				// the implementation may reject representable amounts whose whole part exceeds its own conservative bound: only
				// acceptance with a wrong value is a violation of the property
				continue
			}
			if new(big.Int).SetUint64(got).Cmp(val) != 0 {
				t.Fatalf("CONF leaf=FactoidToFactoshi clause=exact: %q converted to %d, exact value %s", s, got, val)
			}
		}
	}
	t.Logf("CONF-STATS evaluations=%d (decimal strings from the grammar)", evals)
}
