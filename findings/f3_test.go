package node

// F3 (C01): SnapshotPayouts turns the Go map of stakes into a slice (map iteration order), sorts it with an unstable sort
// keyed on the pUSD stake ONLY, and uses the slice index as the payout txid ("<index>-<height>").  ConversionSupplySet.Payouts
// gives the rounding dust to the highest request, ties broken by lowest txid.  With two top stakers of exactly equal stake the
// index -- and therefore who receives the dust, i.e. the PEG balances -- depends on hash-map iteration order.
// The test replays the same snapshot many times on identical ledgers and requires identical PEG balances.

import (
	"testing"
	"time"

	"github.com/Factom-Asset-Tokens/factom"
	"github.com/pegnet/pegnetd/config"
	"github.com/pegnet/pegnetd/fat/fat2"
	log "github.com/sirupsen/logrus"
)

func TestVerifFindingF3(t *testing.T) {
	height := uint32(config.V20HeightActivation + 144 - config.V20HeightActivation%144)
	rates := map[fat2.PTicker]uint64{fat2.PTickerUSD: 100000000, fat2.PTickerPEG: 1000000}
	var addrs []factom.FAAddress
	for i := 0; i < 7; i++ {
		var a factom.FAAddress
		for k := range a {
			a[k] = byte(31*i + k + 3)
		}
		addrs = append(addrs, a)
	}
	seen := map[[7]uint64]int{}
	for run := 0; run < 40; run++ {
		d, done := vfNewNode(t)
		tx, err := d.Pegnet.DB.Begin()
		if err != nil {
			t.Fatal(err)
		}
		// seven stakers with exactly equal pUSD holdings; together far above the 648,000 PEG cap, which does not divide by 7
		for _, a := range addrs {
			a := a
			if _, err := d.Pegnet.AddToBalance(tx, &a, fat2.PTickerUSD, 7e15); err != nil {
				t.Fatal(err)
			}
		}
		// two snapshots: holders are paid on MIN(previous, current)
		if err := d.Pegnet.SnapshotCurrent(tx); err != nil {
			t.Fatal(err)
		}
		if err := d.SnapshotPayouts(tx, log.NewEntry(log.New()), rates, height, time.Unix(1600000000, 0)); err != nil {
			t.Fatalf("SnapshotPayouts: %v", err)
		}
		var got [7]uint64
		for i, a := range addrs {
			a := a
			b, err := d.Pegnet.SelectPendingBalance(tx, &a, fat2.PTickerPEG)
			if err != nil {
				t.Fatal(err)
			}
			got[i] = b
		}
		tx.Rollback()
		done()
		seen[got]++
	}
	if len(seen) > 1 {
		t.Fatalf("VIOLATED: the same snapshot produced %d different PEG balance vectors over 40 replays of an identical ledger (dust recipient depends on map iteration order): %v", len(seen), seen)
	}
	t.Logf("one outcome over 40 replays: %v", seen)
}
