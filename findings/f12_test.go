package srv

// F12 (C18): the rich-list API handlers call Pegnetd.GetPegNetRateAverages, which rewrites the node's rolling-average
// cache (LastAveragesData / LastAverages / LastAveragesHeight) without synchronisation, while the sync goroutine uses the
// same function and the same maps to price conversions.  Demonstration on the real code: (1) sequentially, an API call
// changes the node's in-memory state; (2) under the race detector (go test -race) the two goroutines race on the maps.

import (
	"context"
	"io/ioutil"
	"os"
	"path/filepath"
	"sync"
	"testing"

	"github.com/pegnet/pegnetd/config"
	"github.com/pegnet/pegnetd/node"
	"github.com/pegnet/pegnetd/node/pegnet"
	"github.com/spf13/viper"
)

func f12Node(t *testing.T) (*node.Pegnetd, func()) {
	dir, err := ioutil.TempDir("", "verif-f12")
	if err != nil {
		t.Fatal(err)
	}
	conf := viper.New()
	conf.Set(config.SqliteDBPath, filepath.Join(dir, "ledger.db"))
	p := pegnet.New(conf)
	if err := p.Init(); err != nil {
		t.Fatal(err)
	}
	for h := 1; h <= 6; h++ {
		for _, tk := range []string{"pUSD", "pFCT", "PEG"} {
			if _, err := p.DB.Exec(`INSERT INTO pn_rate (height, token, value) VALUES (?, ?, ?)`, h, tk, 1000+h); err != nil {
				t.Fatal(err)
			}
		}
	}
	d := &node.Pegnetd{Pegnet: p, Config: conf, Sync: &pegnet.BlockSync{Synced: 6}}
	return d, func() { p.DB.Close(); os.RemoveAll(dir) }
}

func TestVerifFindingF12_HandlerWritesNodeState(t *testing.T) {
	d, done := f12Node(t)
	defer done()
	s := &APIServer{Node: d, Config: d.Config}
	if d.LastAveragesData != nil || d.LastAveragesHeight != 0 {
		t.Fatal("fresh node should have an empty cache")
	}
	s.getRichList(context.Background(), []byte(`{"asset":"pFCT","count":5}`))
	s.getGlobalRichList(context.Background(), []byte(`{"count":5}`))
	if d.LastAveragesData != nil || d.LastAveragesHeight != 0 || d.LastAverages != nil {
		t.Fatalf("VIOLATED: after two rich-list requests the node's averages cache is at height %d with %d series: an API goroutine rewrote the state the sync routine prices conversions with", d.LastAveragesHeight, len(d.LastAveragesData))
	}
}

// run with -race: on the defective code the detector reports a data race between the API goroutine and the sync routine's use of the cache
func TestVerifFindingF12_Race(t *testing.T) {
	d, done := f12Node(t)
	defer done()
	s := &APIServer{Node: d, Config: d.Config}
	var wg sync.WaitGroup
	wg.Add(2)
	go func() {
		defer wg.Done()
		for i := 0; i < 50; i++ {
			d.GetPegNetRateAverages(context.Background(), uint32(1+i%6)) // what SyncBlock does through ApplyTransactionBatchesInHolding
		}
	}()
	go func() {
		defer wg.Done()
		for i := 0; i < 50; i++ {
			s.getRichList(context.Background(), []byte(`{"asset":"pFCT","count":5}`))
		}
	}()
	wg.Wait()
}
