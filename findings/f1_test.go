package node

// Finding F1 (C08): GradeS indexes ExtIDs[1] of every entry of the SPR chain before any validation.
// Anybody can write an entry with fewer than two external ids to that chain: the daemon panics, on every restart.

import (
	"context"
	"testing"

	"github.com/Factom-Asset-Tokens/factom"
	"github.com/pegnet/pegnetd/config"
)

func TestVerifFindingF1(t *testing.T) {
	d, done := vfNewNode(t)
	defer done()
	chain := config.SPRChain
	h := factom.Bytes32{7}
	eb := &factom.EBlock{ChainID: &chain, Height: 300000, Entries: []factom.Entry{
		{ChainID: &chain, Hash: &h, ExtIDs: []factom.Bytes{[]byte("only one")}, Content: []byte("x")},
	}}
	defer func() {
		if r := recover(); r != nil {
			t.Fatalf("VIOLATED: chain content crashed the daemon: panic: %v", r)
		}
	}()
	g, err := d.GradeS(context.Background(), eb)
	t.Logf("GradeS returned graded=%v err=%v", g != nil, err)
}
