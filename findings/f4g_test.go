package node

// Finding F4g (C10/C14): at a staking-snapshot height whose own block has no rates, SyncBlock falls back to earlier rates
// (SelectPendingRates(height-1) before 2.0.2, SelectMostRecentRatesBeforeHeight from 2.0.2 on) and never looks at the error of
// that query.  When the query fails, `rates` is nil, the snapshot and the holders' payout are skipped without a word, and the
// block is committed: the ledger differs from the fault-free run for good (the payout of that day is never made).

import (
	"context"
	"testing"

	"github.com/Factom-Asset-Tokens/factom"
	"github.com/pegnet/pegnetd/config"
	"github.com/pegnet/pegnetd/fat/fat2"
	log "github.com/sirupsen/logrus"
)

func TestVerifFindingF4g(t *testing.T) {
	log.SetLevel(log.ErrorLevel)
	H := config.V202EnhanceActivation + 144 - config.V202EnhanceActivation%144 // first snapshot height from 2.0.2 on
	run := func(fault bool) (paid uint64, err error) {
		d, done := vfNewNode(t)
		defer done()
		cl, stop := vfFakeFactomd(t, H+10)
		defer stop()
		d.FactomClient = cl
		d.Sync.Synced = H - 1
		a := factom.FAAddress{7, 7, 7}
		setup, _ := d.Pegnet.DB.Begin()
		if _, e := d.Pegnet.AddToBalance(setup, &a, fat2.PTickerUSD, 5e8); e != nil {
			t.Fatal(e)
		}
		// the holder is in the previous snapshot and in this one; rates exist two blocks earlier
		if e := d.Pegnet.SnapshotCurrent(setup); e != nil {
			t.Fatal(e)
		}
		for _, tv := range []struct {
			n string
			v uint64
		}{{"pUSD", 1e8}, {"PEG", 1e6}} {
			if _, e := setup.Exec(`INSERT INTO pn_rate (height, token, value) VALUES (?, ?, ?)`, H-2, tv.n, tv.v); e != nil {
				t.Fatal(e)
			}
		}
		if e := setup.Commit(); e != nil {
			t.Fatal(e)
		}
		tx, _ := d.Pegnet.DB.Begin()
		if fault {
			vfSetRowFault("MAX(", 1) // the fallback query (the one with the MAX(height) sub-select) fails while stepping through its rows
			defer vfSetRowFault("", 0)
		}
		err = d.SyncBlock(context.Background(), tx, H)
		if fault && vfRowFaultFired() == 0 {
			t.Skip("fault did not fire")
		}
		if err != nil {
			tx.Rollback()
			return 0, err
		}
		if e := tx.Commit(); e != nil {
			t.Fatal(e)
		}
		return vfBal(t, d, a, fat2.PTickerPEG), nil
	}
	want, err := run(false)
	if err != nil || want == 0 {
		t.Fatalf("fixture: the fault-free run pays the holder nothing (%d, %v)", want, err)
	}
	got, err := run(true)
	if err != nil {
		t.Logf("HOLDS: the failed rates query fails the block (it is rolled back and retried): %v", err)
		return
	}
	if got != want {
		t.Fatalf("VIOLATED: block %d committed although the fallback rates query failed: the holder was paid %d PEG, fault-free run %d", H, got, want)
	}
}
