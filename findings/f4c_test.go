package node

// Finding F4c (C10/C15): SyncBlock only traces the error of DevelopersPayouts. One failed statement in the middle of the
// developer payout leaves the block "successfully" applied with only part of the developers paid.

import (
	"context"
	"testing"

	"github.com/Factom-Asset-Tokens/factom"
	"github.com/pegnet/pegnetd/fat/fat2"
	log "github.com/sirupsen/logrus"
)

func TestVerifFindingF4c(t *testing.T) {
	log.SetLevel(log.ErrorLevel)
	d, done := vfNewNode(t)
	defer done()
	cl, stop := vfFakeFactomd(t, 300000)
	defer stop()
	d.FactomClient = cl
	const H = uint32(288000) // 144 * 2000, after 2.0.2: every developer is due 2000*144*pct/100 PEG
	d.Sync.Synced = H - 1

	tx, err := d.Pegnet.DB.Begin()
	if err != nil {
		t.Fatal(err)
	}
	// the statement crediting the 3rd developer fails once
	vfSetFault(`INSERT INTO "pn_addresses"`, 3)
	err = d.SyncBlock(context.Background(), tx, H)
	if vfFaultFired() != 1 {
		t.Skipf("fault did not fire (err=%v)", err)
	}
	if err != nil {
		t.Logf("HOLDS: the failed developer payout fails the block: %v", err)
		tx.Rollback()
		return
	}
	if err := tx.Commit(); err != nil {
		t.Fatal(err)
	}
	paid := 0
	for _, dev := range DeveloperRewardAddreses {
		a, _ := factom.NewFAAddress(dev.DevAddress)
		if vfBal(t, d, a, fat2.PTickerPEG) > 0 {
			paid++
		}
	}
	if paid != len(DeveloperRewardAddreses) {
		t.Fatalf("VIOLATED: block %d committed although the developer payout failed: %d of %d developers paid", H, paid, len(DeveloperRewardAddreses))
	}
}
