package pegnet

// Finding F13 (C19): a database written by a build that predates version tracking and that stopped
// exactly ON a hard-fork height is accepted: the legacy back-fill uses `bs.Synced > ActivationHeight`,
// although the fork block itself was applied by the untracked build.

import (
	"encoding/json"
	"io/ioutil"
	"os"
	"path/filepath"
	"testing"

	"github.com/pegnet/pegnetd/config"
	"github.com/spf13/viper"
)

func TestVerifFindingF13(t *testing.T) {
	for _, synced := range []uint32{231619, 231620, 231621} {
		dir, _ := ioutil.TempDir("", "verif-f13")
		defer os.RemoveAll(dir)
		conf := viper.New()
		conf.Set(config.SqliteDBPath, filepath.Join(dir, "l.db"))
		p := New(conf)
		if err := p.Init(); err != nil {
			t.Fatal(err)
		}
		// what a pre-tracking build leaves behind: the metadata row only, no pn_sync_version rows
		data, _ := json.Marshal(&BlockSync{Synced: synced})
		if _, err := p.DB.Exec("REPLACE INTO pn_metadata (name, value) VALUES ($1, $2)", "synced", data); err != nil {
			t.Fatal(err)
		}
		err := p.CheckHardForks(p.DB)
		t.Logf("legacy database stopped at %d: CheckHardForks = %v", synced, err)
		mustRefuse := synced >= 231620 // the V4 fork block (min version 1) was synced by the untracked build
		if mustRefuse && err == nil {
			t.Errorf("VIOLATED: legacy database stopped at %d (fork block 231620 applied by an untracked build) is accepted", synced)
		}
		if !mustRefuse && err != nil {
			t.Errorf("legacy database stopped at %d refused: %v", synced, err)
		}
		p.DB.Close()
	}
}
