package node

// Finding F4a/b (C10): DBlockSync discards the result of NullifyBurnAddress (and NullifyBurnAddress itself only logs
// failures of SelectBalances/SubFromBalance). A storage fault during the one-time zeroing of the burn address leaves the
// block committed with the burn address NOT zeroed; the step is never retried.

import (
	"context"
	"testing"

	"github.com/Factom-Asset-Tokens/factom"
	"github.com/pegnet/pegnetd/config"
	"github.com/pegnet/pegnetd/fat/fat2"
	log "github.com/sirupsen/logrus"
)

func TestVerifFindingF4ab(t *testing.T) {
	log.SetLevel(log.ErrorLevel)
	d, done := vfNewNode(t)
	defer done()
	cl, stop := vfFakeFactomd(t, 300000)
	defer stop()
	d.FactomClient = cl
	H := config.V202EnhanceActivation
	burn, _ := factom.NewFAAddress(GlobalBurnAddress)

	tx, _ := d.Pegnet.DB.Begin()
	if _, err := d.Pegnet.AddToBalance(tx, &burn, fat2.PTickerUSD, 777); err != nil {
		t.Fatal(err)
	}
	tx.Commit()

	// what DBlockSync does for this height: begin, NullifyBurnAddress (result discarded), SyncBlock, commit
	tx, _ = d.Pegnet.DB.Begin()
	d.Sync.Synced = H - 1
	vfSetFault(`FROM pn_addresses WHERE address`, 1) // the SELECT of the burn address balances fails once
	_ = d.NullifyBurnAddress(context.Background(), tx, H)
	fired := vfFaultFired()
	vfSetFault("", 0)
	if err := d.SyncBlock(context.Background(), tx, H); err != nil {
		t.Fatalf("SyncBlock: %v", err)
	}
	if err := tx.Commit(); err != nil {
		t.Fatal(err)
	}
	if fired != 1 {
		t.Skip("fault did not fire")
	}
	if left := vfBal(t, d, burn, fat2.PTickerUSD); left != 0 {
		t.Fatalf("VIOLATED: block %d committed with the burn address not zeroed after a transient fault: %d pUSD left", H, left)
	}
}
