package node

// Finding F11 (C17): applyTransactionBatch returns nil WITHOUT applying the batch when
// conversions.Convert fails in the up-front check (e.g. the average of an asset is unavailable
// once averaging is active). Callers treat nil as "accepted": no status is written, the batch
// stays "pending" (executed = 0) although it is never considered again.

import (
	"testing"
	"time"

	"github.com/Factom-Asset-Tokens/factom"
	"github.com/pegnet/pegnetd/config"
	"github.com/pegnet/pegnetd/fat/fat2"
	"github.com/pegnet/pegnetd/node/pegnet"
)

func TestVerifFindingF11(t *testing.T) {
	d, done := vfNewNode(t)
	defer done()
	key, _ := factom.GenerateFsAddress()
	adr := key.FAAddress()
	height := config.PIP10AverageActivation + 10
	e := vfSignedEntry(t, key, []fat2.Transaction{{
		Input:      fat2.TypedAddressAmountTuple{Address: adr, Amount: 100, Type: fat2.PTickerUSD},
		Conversion: fat2.PTickerEUR,
	}}, time.Now())
	batch, err := fat2.NewTransactionBatch(e, int32(height))
	if err != nil {
		t.Fatal(err)
	}
	tx, _ := d.Pegnet.DB.Begin()
	if _, err := d.Pegnet.AddToBalance(tx, &adr, fat2.PTickerUSD, 1000); err != nil {
		t.Fatal(err)
	}
	if err := d.Pegnet.InsertTransactionHistoryTxBatch(tx, 0, batch, height-1); err != nil {
		t.Fatal(err)
	}
	rates := map[fat2.PTicker]uint64{fat2.PTickerUSD: 1e8, fat2.PTickerEUR: 1.1e8}
	averages := map[fat2.PTicker]uint64{fat2.PTickerUSD: 1e8, fat2.PTickerEUR: 0} // average unavailable
	err = d.applyTransactionBatch(tx, batch, rates, averages, height)
	code, err2 := pegnet.IsRejectedTx(err)
	if err := tx.Commit(); err != nil {
		t.Fatal(err)
	}
	usd := vfBal(t, d, adr, fat2.PTickerUSD)
	_, executed := vfStatus(t, d, e.Hash)
	t.Logf("applyTransactionBatch err=%v code=%d err2=%v; pUSD=%d executed=%d", err, code, err2, usd, executed)
	if err == nil && usd == 1000 && executed == 0 {
		t.Fatalf("VIOLATED: nil returned, nothing applied, status left pending (executed=0): the batch is reported as waiting forever")
	}
}
