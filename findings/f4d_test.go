package node

// Finding F4d (C10/C17): the error of SetTransactionHistoryExecuted is dropped at four call sites.
// A single failed UPDATE of the status leaves a rejected batch reported as "pending" in a block that commits.

import (
	"testing"
	"time"

	"github.com/Factom-Asset-Tokens/factom"
	"github.com/pegnet/pegnetd/fat/fat2"
)

func TestVerifFindingF4d(t *testing.T) {
	d, done := vfNewNode(t)
	defer done()
	key, _ := factom.GenerateFsAddress()
	other, _ := factom.GenerateFsAddress()
	// the input address holds nothing: the transfer must be rejected with status -1
	e := vfSignedEntry(t, key, []fat2.Transaction{{
		Input:     fat2.TypedAddressAmountTuple{Address: key.FAAddress(), Amount: 5, Type: fat2.PTickerUSD},
		Transfers: []fat2.AddressAmountTuple{{Address: other.FAAddress(), Amount: 5}},
	}}, time.Now())
	eb := &factom.EBlock{Height: 300000, Entries: []factom.Entry{e}}
	kmr := factom.Bytes32{1}
	eb.KeyMR = &kmr

	tx, err := d.Pegnet.DB.Begin()
	if err != nil {
		t.Fatal(err)
	}
	vfSetFault(`UPDATE "pn_history_txbatch" SET executed`, 1)
	err = d.ApplyTransactionBlock(tx, eb)
	if vfFaultFired() != 1 {
		t.Skipf("fault did not fire (err=%v)", err)
	}
	if err != nil {
		t.Logf("HOLDS: the statement fault was reported: %v", err)
		tx.Rollback()
		return
	}
	// the block "succeeded": it would now be committed by DBlockSync
	if err := tx.Commit(); err != nil {
		t.Fatal(err)
	}
	_, executed := vfStatus(t, d, e.Hash)
	if executed != -1 {
		t.Fatalf("VIOLATED: statement fault swallowed; block committed with rejected batch reported as executed=%d (want -1)", executed)
	}
}
