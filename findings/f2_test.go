package cmd

// Finding F2 (C20): FactoidToFactoshi silently alters amounts whose base-unit value does not fit in 64 bits
// (the Atoi error is ignored and uint64(whole)*1e8 wraps around).

import "testing"

func TestVerifFindingF2(t *testing.T) {
	for _, in := range []string{"184467440738", "184467440737.09551616", "99999999999999999999"} {
		v, err := FactoidToFactoshi(in)
		t.Logf("FactoidToFactoshi(%q) = %d, %v", in, v, err)
		if err == nil {
			t.Errorf("VIOLATED: %q is neither converted exactly (does not fit in uint64) nor rejected: got %d", in, v)
		}
	}
	// control: the largest representable amounts still convert exactly
	if v, err := FactoidToFactoshi("184467440737.09551615"); err != nil || v != 18446744073709551615 {
		t.Errorf("max amount: got %d, %v", v, err)
	}
	if v, err := FactoidToFactoshi(".5"); err != nil || v != 50000000 {
		t.Errorf(".5: got %d, %v", v, err)
	}
}
