package node

// Finding F15 (C04): before 2.0.2 (height < V202EnhanceActivation) recordBatch compares every transfer output with the
// variable FAGlobalBurnAddress, which is only filled in from 2.0.2 on -- before that it is the all-zero address.  A transfer
// that names the all-zero address as a recipient is therefore debited from the sender and credited to nobody: units are
// destroyed by an event that is not one of the protocol's supply events (the burn address rule does not exist at that height).

import (
	"testing"
	"time"

	"github.com/Factom-Asset-Tokens/factom"
	"github.com/pegnet/pegnetd/config"
	"github.com/pegnet/pegnetd/fat/fat2"
)

func TestVerifFindingF15(t *testing.T) {
	for _, height := range []uint32{config.V202EnhanceActivation - 1000, config.V202EnhanceActivation + 1000} {
		d, done := vfNewNode(t)
		key, _ := factom.GenerateFsAddress()
		adr := key.FAAddress()
		var zero factom.FAAddress
		other := factom.FAAddress{1, 2, 3}
		e := vfSignedEntry(t, key, []fat2.Transaction{{
			Input:     fat2.TypedAddressAmountTuple{Address: adr, Amount: 100, Type: fat2.PTickerUSD},
			Transfers: []fat2.AddressAmountTuple{{Address: zero, Amount: 60}, {Address: other, Amount: 40}},
		}}, time.Time{})
		chain := config.TransactionChain
		var keymr factom.Bytes32
		eb := &factom.EBlock{ChainID: &chain, KeyMR: &keymr, Height: height, Entries: []factom.Entry{e}}
		tx, _ := d.Pegnet.DB.Begin()
		if _, err := d.Pegnet.AddToBalance(tx, &adr, fat2.PTickerUSD, 1000); err != nil {
			t.Fatal(err)
		}
		if err := d.ApplyTransactionBlock(tx, eb); err != nil {
			t.Fatal(err)
		}
		if err := tx.Commit(); err != nil {
			t.Fatal(err)
		}
		a, z, o := vfBal(t, d, adr, fat2.PTickerUSD), vfBal(t, d, zero, fat2.PTickerUSD), vfBal(t, d, other, fat2.PTickerUSD)
		_, executed := vfStatus(t, d, e.Hash)
		t.Logf("height %d: executed=%d sender=%d all-zero address=%d other=%d total=%d (was 1000)", height, executed, a, z, o, a+z+o)
		if height < config.V202EnhanceActivation && executed > 0 && a+z+o != 1000 {
			t.Errorf("VIOLATED at height %d (before 2.0.2, no burn address rule): the transfer was executed, %d pUSD were debited and only %d credited: %d units destroyed", height, 1000-a, z+o, 1000-(a+z+o))
		}
		done()
	}
}
