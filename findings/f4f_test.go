package node

// Finding F4f (C10 C15): NullifyMintedTokens only logs a failure of SelectBalances and carries on with an empty balance
// map: every listed asset is "zeroed" by subtracting 0, nil is returned, SyncBlock goes on and the block is committed
// with the minted tokens still in place; the one-time step (height == V204BurnMintedTokenActivation) is never retried.

import (
	"context"
	"testing"

	"github.com/Factom-Asset-Tokens/factom"
	"github.com/pegnet/pegnetd/config"
	log "github.com/sirupsen/logrus"
)

func TestVerifFindingF4f(t *testing.T) {
	log.SetLevel(log.ErrorLevel)
	d, done := vfNewNode(t)
	defer done()
	mint, _ := factom.NewFAAddress(GlobalMintAddress)
	tk := MintTotalSupplyMap[0].Ticker

	tx, _ := d.Pegnet.DB.Begin()
	if _, err := d.Pegnet.AddToBalance(tx, &mint, tk, 5000); err != nil {
		t.Fatal(err)
	}
	tx.Commit()

	tx, _ = d.Pegnet.DB.Begin()
	defer tx.Rollback()
	vfSetFault(`FROM pn_addresses WHERE address`, 1) // the SELECT of the mint address balances fails once
	err := d.NullifyMintedTokens(context.Background(), tx, config.V204BurnMintedTokenActivation)
	fired := vfFaultFired()
	vfSetFault("", 0)
	if fired != 1 {
		t.Skip("fault did not fire")
	}
	left, e2 := d.Pegnet.SelectPendingBalance(tx, &mint, tk)
	if e2 != nil {
		t.Fatal(e2)
	}
	if err == nil && left != 0 {
		t.Fatalf("VIOLATED: NullifyMintedTokens returned nil after a failed balance read with %d %s still on the mint address (the block would be committed, the step never retried)", left, tk)
	}
	t.Logf("err=%v left=%d", err, left)
}
