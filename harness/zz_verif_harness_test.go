package node

// Replay / demonstration harness of /verif, injected into package node by `go test -overlay`.
// Nothing here is part of the repository. It provides
//   - a temp-file SQLite ledger created through the real pegnet.New(conf).Init()
//   - a fault-injecting database/sql driver wrapped around sqlite3 (fail the n-th statement matching a pattern)
//   - helpers to build signed FAT-2 entries

import (
	"context"
	"database/sql"
	"database/sql/driver"
	"encoding/binary"
	"encoding/hex"
	"encoding/json"
	"errors"
	"io/ioutil"
	"net/http"
	"net/http/httptest"
	"os"
	"path/filepath"
	"strings"
	"sync"
	"testing"
	"time"

	"github.com/Factom-Asset-Tokens/factom"
	sqlite3 "github.com/mattn/go-sqlite3"
	"github.com/pegnet/pegnetd/config"
	"github.com/pegnet/pegnetd/fat/fat2"
	"github.com/pegnet/pegnetd/node/pegnet"
	"github.com/spf13/viper"
)

// ---- fault driver -------------------------------------------------------------------------------

type faultPlan struct {
	mu      sync.Mutex
	pattern string // substring of the SQL text
	nth     int    // fail the nth match (1-based); 0 = disabled
	seen    int
	fired   int
}

var vfFault = &faultPlan{}

func vfSetFault(pattern string, nth int) {
	vfFault.mu.Lock()
	vfFault.pattern, vfFault.nth, vfFault.seen, vfFault.fired = pattern, nth, 0, 0
	vfFault.mu.Unlock()
}
func vfFaultFired() int { vfFault.mu.Lock(); defer vfFault.mu.Unlock(); return vfFault.fired }

var errInjected = errors.New("verif: injected statement fault")

// row-iteration faults: the k-th Next() of the result set of a matching query fails (I/O error while stepping the statement)
type rowFaultPlan struct {
	mu      sync.Mutex
	pattern string
	row     int // fail the Next() that would deliver this row (1-based); 0 = disabled
	fired   int
}

var vfRowFault = &rowFaultPlan{}

func vfSetRowFault(pattern string, row int) {
	vfRowFault.mu.Lock()
	vfRowFault.pattern, vfRowFault.row, vfRowFault.fired = pattern, row, 0
	vfRowFault.mu.Unlock()
}
func vfRowFaultFired() int { vfRowFault.mu.Lock(); defer vfRowFault.mu.Unlock(); return vfRowFault.fired }

type faultRows struct {
	driver.Rows
	n int
}

func (r *faultRows) Next(dest []driver.Value) error {
	r.n++
	vfRowFault.mu.Lock()
	hit := vfRowFault.row != 0 && r.n == vfRowFault.row
	if hit {
		vfRowFault.fired++
	}
	vfRowFault.mu.Unlock()
	if hit {
		return errInjected
	}
	return r.Rows.Next(dest)
}

func wrapRows(q string, rows driver.Rows, err error) (driver.Rows, error) {
	if err != nil {
		return rows, err
	}
	vfRowFault.mu.Lock()
	match := vfRowFault.row != 0 && strings.Contains(q, vfRowFault.pattern)
	vfRowFault.mu.Unlock()
	if match {
		return &faultRows{Rows: rows}, nil
	}
	return rows, nil
}

func (f *faultPlan) hit(q string) bool {
	f.mu.Lock()
	defer f.mu.Unlock()
	if f.nth == 0 || !strings.Contains(q, f.pattern) {
		return false
	}
	f.seen++
	if f.seen == f.nth {
		f.fired++
		return true
	}
	return false
}

type faultDriver struct{ inner *sqlite3.SQLiteDriver }

func (d *faultDriver) Open(name string) (driver.Conn, error) {
	c, err := d.inner.Open(name)
	if err != nil {
		return nil, err
	}
	return &faultConn{c.(*sqlite3.SQLiteConn)}, nil
}

type faultConn struct{ c *sqlite3.SQLiteConn }

func (c *faultConn) Prepare(q string) (driver.Stmt, error) {
	s, err := c.c.Prepare(q)
	if err != nil {
		return nil, err
	}
	return &faultStmt{s, q}, nil
}
func (c *faultConn) Close() error              { return c.c.Close() }
func (c *faultConn) Begin() (driver.Tx, error) { return c.c.Begin() }
func (c *faultConn) BeginTx(ctx context.Context, o driver.TxOptions) (driver.Tx, error) {
	return c.c.BeginTx(ctx, o)
}
func (c *faultConn) ExecContext(ctx context.Context, q string, args []driver.NamedValue) (driver.Result, error) {
	if vfFault.hit(q) {
		return nil, errInjected
	}
	return c.c.ExecContext(ctx, q, args)
}
func (c *faultConn) QueryContext(ctx context.Context, q string, args []driver.NamedValue) (driver.Rows, error) {
	if vfFault.hit(q) {
		return nil, errInjected
	}
	rows, err := c.c.QueryContext(ctx, q, args)
	return wrapRows(q, rows, err)
}

type faultStmt struct {
	s driver.Stmt
	q string
}

func (s *faultStmt) Close() error  { return s.s.Close() }
func (s *faultStmt) NumInput() int { return s.s.NumInput() }
func (s *faultStmt) Exec(args []driver.Value) (driver.Result, error) {
	if vfFault.hit(s.q) {
		return nil, errInjected
	}
	return s.s.Exec(args)
}
func (s *faultStmt) Query(args []driver.Value) (driver.Rows, error) {
	if vfFault.hit(s.q) {
		return nil, errInjected
	}
	rows, err := s.s.Query(args)
	return wrapRows(s.q, rows, err)
}

var vfRegister sync.Once

// ---- node on a temp ledger ------------------------------------------------------------------------

func vfNewNode(t testing.TB) (*Pegnetd, func()) {
	vfRegister.Do(func() { sql.Register("sqlite3_vf", &faultDriver{&sqlite3.SQLiteDriver{}}) })
	dir, err := ioutil.TempDir("", "verif-replay")
	if err != nil {
		t.Fatal(err)
	}
	conf := viper.New()
	conf.Set(config.SqliteDBPath, filepath.Join(dir, "ledger.db"))
	p := pegnet.New(conf)
	if err := p.Init(); err != nil {
		t.Fatal(err)
	}
	p.DB.Close()
	db, err := sql.Open("sqlite3_vf", filepath.Join(dir, "ledger.db")+".v4")
	if err != nil {
		t.Fatal(err)
	}
	p.DB = db
	d := &Pegnetd{Pegnet: p, Config: conf, Sync: &pegnet.BlockSync{}}
	return d, func() { vfSetFault("", 0); vfSetRowFault("", 0); db.Close(); os.RemoveAll(dir) }
}

// vfSignedEntry builds a signed FAT-2 entry for the transaction chain.
func vfSignedEntry(t testing.TB, key factom.FsAddress, txs []fat2.Transaction, ts time.Time) factom.Entry {
	chain := config.TransactionChain
	b := fat2.TransactionBatch{Version: 1, Transactions: txs}
	b.Entry = factom.Entry{ChainID: &chain}
	e, err := b.Sign(key)
	if err != nil {
		t.Fatal(err)
	}
	if !ts.IsZero() {
		e.Timestamp = ts
	}
	data, err := e.MarshalBinary()
	if err != nil {
		t.Fatal(err)
	}
	h := factom.ComputeEntryHash(data)
	e.Hash = &h
	return e
}

func vfBal(t testing.TB, d *Pegnetd, a factom.FAAddress, tk fat2.PTicker) uint64 {
	b, err := d.Pegnet.SelectBalance(&a, tk)
	if err != nil {
		t.Fatal(err)
	}
	return b
}

func vfPending(t testing.TB, d *Pegnetd, tx *sql.Tx, a factom.FAAddress) uint64 {
	b, err := d.Pegnet.SelectPendingBalance(tx, &a, fat2.PTickerUSD)
	if err != nil {
		t.Fatal(err)
	}
	return b
}

func vfStatus(t testing.TB, d *Pegnetd, h *factom.Bytes32) (height uint32, executed int32) {
	height, executed, err := d.Pegnet.SelectTransactionHistoryStatus(h)
	if err != nil {
		t.Fatalf("status: %v", err)
	}
	return
}

// ---- a minimal fake factomd -------------------------------------------------------------------------
// Serves "dblock-by-height" with a directory block that contains only the three mandatory system chains
// (no PegNet chains): enough to drive SyncBlock / DBlockSync through blocks without tracked entries.

func vfEmptyDBlock(t testing.TB, height uint32) []byte {
	body := make([]byte, 0, 3*factom.DBlockEBlockLen)
	elements := make([][]byte, 3)
	for i, id := range []byte{0x0a, 0x0c, 0x0f} {
		var chainID, keyMR factom.Bytes32
		chainID[31] = id
		keyMR[0] = id
		binary.BigEndian.PutUint32(keyMR[28:], height)
		el := append(append([]byte{}, chainID[:]...), keyMR[:]...)
		elements[i] = el
		body = append(body, el...)
	}
	bodyMR, err := factom.ComputeDBlockBodyMR(elements)
	if err != nil {
		t.Fatal(err)
	}
	hdr := make([]byte, factom.DBlockHeaderLen)
	i := 1 + 4
	i += copy(hdr[i:], bodyMR[:])
	i += 32 + 32
	binary.BigEndian.PutUint32(hdr[i:], uint32(1600000000/60)+height)
	i += 4
	binary.BigEndian.PutUint32(hdr[i:], height)
	i += 4
	binary.BigEndian.PutUint32(hdr[i:], 3)
	return append(hdr, body...)
}

// vfFakeFactomd returns a client talking to an in-process server; failRequest(n) makes the n-th request fail (0 = never).
func vfFakeFactomd(t testing.TB, tip uint32) (*factom.Client, func()) {
	srv := httptest.NewServer(http.HandlerFunc(func(w http.ResponseWriter, r *http.Request) {
		var req struct {
			ID     json.RawMessage `json:"id"`
			Method string          `json:"method"`
			Params struct {
				Height uint32 `json:"height"`
			} `json:"params"`
		}
		if err := json.NewDecoder(r.Body).Decode(&req); err != nil {
			http.Error(w, err.Error(), 400)
			return
		}
		var result interface{}
		switch req.Method {
		case "dblock-by-height":
			result = map[string]interface{}{"rawdata": hex.EncodeToString(vfEmptyDBlock(t, req.Params.Height))}
		case "heights":
			result = map[string]interface{}{"directoryblockheight": tip, "leaderheight": tip, "entryblockheight": tip, "entryheight": tip}
		default:
			http.Error(w, "unexpected method "+req.Method, 400)
			return
		}
		w.Header().Set("Content-Type", "application/json")
		json.NewEncoder(w).Encode(map[string]interface{}{"jsonrpc": "2.0", "id": req.ID, "result": result})
	}))
	cl := factom.NewClient()
	cl.FactomdServer = srv.URL
	return cl, srv.Close
}
