#!/bin/bash
# Offline setup: build the verifier and warm the Go build cache for /repo (cgo sqlite3).
set -e
cd "$(dirname "$0")"
export GOFLAGS=-mod=mod GOPROXY=off GOSUMDB=off GOTOOLCHAIN=local
mkdir -p bin
(cd govc && go build -o ../bin/govc .)
(cd /repo && go build ./... && go vet -tags=verif ./fat/... >/dev/null 2>&1 || true)
(cd /repo && go test -vet=off -count=1 -run '^$' ./... >/dev/null 2>&1 || true)
echo setup ok
